package bridge

import (
	"bytes"
	"fmt"
	"google.golang.org/protobuf/encoding/protowire"
	"math"
	"sort"
	"strings"

	"google.golang.org/protobuf/encoding/prototext"
	"google.golang.org/protobuf/reflect/protoreflect"
	"google.golang.org/protobuf/types/dynamicpb"
)

// Shape renders the feature shape of a field: syntax/kind/cardinality[/packed]/container.
func Shape(fd protoreflect.FieldDescriptor) string {
	syn := "proto2"
	if fd.ParentFile() != nil && fd.ParentFile().Syntax() == protoreflect.Proto3 {
		syn = "proto3"
	}
	kind := fd.Kind().String()
	card := "singular"
	switch {
	case fd.IsMap():
		return fmt.Sprintf("%s/map<%s,%s>", syn, fd.MapKey().Kind(), fd.MapValue().Kind())
	case fd.IsList():
		card = "repeated"
		if fd.IsPacked() {
			card += "-packed"
		}
	case fd.Cardinality() == protoreflect.Required:
		card = "required"
	case fd.HasOptionalKeyword():
		card = "optional"
	case !fd.HasPresence():
		card = "implicit"
	}
	cont := "plain"
	switch {
	case fd.IsExtension():
		cont = "extension"
	case fd.ContainingOneof() != nil && !fd.ContainingOneof().IsSynthetic():
		cont = "oneof"
	case fd.ContainingMessage() != nil && fd.ContainingMessage().IsMapEntry():
		if fd.Number() == 1 {
			cont = "map-key"
		} else {
			cont = "map-value"
		}
	}
	return fmt.Sprintf("%s/%s/%s/%s", syn, kind, card, cont)
}

// DiffItem is one difference between an expected and an observed message.
type DiffItem struct {
	Path  string // field path by names
	Shape string
	Kind  string // missing | phantom | value-changed | count-changed | unknown-changed
	Note  string
	// InWKT: the difference lies inside a google.protobuf.* (well-known type) sub-message, which csproto
	// delegates to the owning runtime's own codec
	InWKT bool
	// Foreign: the difference lies inside a sub-message declared in another file than the compared root message,
	// i.e. of a type without generated fast methods that the owning runtime's own codec decodes and encodes
	Foreign bool
}

func (d DiffItem) String() string { return d.Kind + "@" + d.Shape }

// Diff itemises the differences between want and got (same descriptor).
func Diff(want, got protoreflect.Message) []DiffItem {
	var out []DiffItem
	diffMsg("", want, got, &out, 0, want.Descriptor().ParentFile())
	return out
}

func isWKT(m protoreflect.Message) bool {
	return m.Descriptor().ParentFile() != nil && m.Descriptor().ParentFile().Package() == "google.protobuf"
}

func valueBytes(fd protoreflect.FieldDescriptor, v protoreflect.Value) string {
	switch fd.Kind() {
	case protoreflect.FloatKind:
		return fmt.Sprintf("f%08x", math.Float32bits(float32(v.Float())))
	case protoreflect.DoubleKind:
		return fmt.Sprintf("d%016x", math.Float64bits(v.Float()))
	case protoreflect.BytesKind:
		return fmt.Sprintf("b%x", v.Bytes())
	case protoreflect.StringKind:
		return "s" + v.String()
	case protoreflect.EnumKind:
		return fmt.Sprintf("e%d", v.Enum())
	case protoreflect.BoolKind:
		return fmt.Sprint(v.Bool())
	case protoreflect.MessageKind, protoreflect.GroupKind:
		b, _ := MarshalRef(v.Message().Interface())
		return fmt.Sprintf("m%x", b)
	}
	return fmt.Sprint(v.Interface())
}

func fieldsOfBoth(a, b protoreflect.Message) []protoreflect.FieldDescriptor {
	seen := map[protoreflect.FullName]protoreflect.FieldDescriptor{}
	f := func(fd protoreflect.FieldDescriptor, _ protoreflect.Value) bool {
		seen[fd.FullName()] = fd
		return true
	}
	a.Range(f)
	b.Range(f)
	var out []protoreflect.FieldDescriptor
	for _, fd := range seen {
		out = append(out, fd)
	}
	sort.Slice(out, func(i, j int) bool { return out[i].Number() < out[j].Number() })
	return out
}

func diffMsg(path string, want, got protoreflect.Message, out *[]DiffItem, depth int, root protoreflect.FileDescriptor) {
	if root != nil && want.Descriptor().ParentFile() != nil && want.Descriptor().ParentFile().Path() != root.Path() && !isWKT(want) {
		n := len(*out)
		defer func() {
			for i := n; i < len(*out); i++ {
				(*out)[i].Foreign = true
			}
		}()
	}
	if isWKT(want) {
		n := len(*out)
		defer func() {
			for i := n; i < len(*out); i++ {
				(*out)[i].InWKT = true
			}
		}()
	}
	for _, fd := range fieldsOfBoth(want, got) {
		p := path + string(fd.Name())
		sh := Shape(fd)
		hw, hg := want.Has(fd), got.Has(fd)
		switch {
		case hw && !hg:
			*out = append(*out, DiffItem{Path: p, Shape: sh, Kind: "missing"})
			continue
		case !hw && hg:
			*out = append(*out, DiffItem{Path: p, Shape: sh, Kind: "phantom", Note: clipS(valueText(fd, got.Get(fd)))})
			continue
		}
		wv, gv := want.Get(fd), got.Get(fd)
		switch {
		case fd.IsMap():
			wm, gm := wv.Map(), gv.Map()
			if wm.Len() != gm.Len() {
				*out = append(*out, DiffItem{Path: p, Shape: sh, Kind: "count-changed", Note: fmt.Sprintf("%d -> %d entries", wm.Len(), gm.Len())})
				continue
			}
			wm.Range(func(k protoreflect.MapKey, v protoreflect.Value) bool {
				if !gm.Has(k) {
					*out = append(*out, DiffItem{Path: p + "[" + k.String() + "]", Shape: sh, Kind: "missing"})
					return true
				}
				if fd.MapValue().Kind() == protoreflect.MessageKind {
					if depth < 6 {
						diffMsg(p+"["+k.String()+"].", v.Message(), gm.Get(k).Message(), out, depth+1, root)
					}
				} else if valueBytes(fd.MapValue(), v) != valueBytes(fd.MapValue(), gm.Get(k)) {
					*out = append(*out, DiffItem{Path: p + "[" + k.String() + "]", Shape: sh, Kind: "value-changed"})
				}
				return true
			})
		case fd.IsList():
			wl, gl := wv.List(), gv.List()
			if wl.Len() != gl.Len() {
				*out = append(*out, DiffItem{Path: p, Shape: sh, Kind: "count-changed", Note: fmt.Sprintf("%d -> %d elements", wl.Len(), gl.Len())})
				continue
			}
			for i := 0; i < wl.Len(); i++ {
				if fd.Kind() == protoreflect.MessageKind {
					if depth < 6 {
						diffMsg(fmt.Sprintf("%s[%d].", p, i), wl.Get(i).Message(), gl.Get(i).Message(), out, depth+1, root)
					}
				} else if valueBytes(fd, wl.Get(i)) != valueBytes(fd, gl.Get(i)) {
					*out = append(*out, DiffItem{Path: fmt.Sprintf("%s[%d]", p, i), Shape: sh, Kind: "value-changed"})
					break
				}
			}
		case fd.Kind() == protoreflect.MessageKind || fd.Kind() == protoreflect.GroupKind:
			if depth < 6 {
				diffMsg(p+".", wv.Message(), gv.Message(), out, depth+1, root)
			}
		default:
			if valueBytes(fd, wv) != valueBytes(fd, gv) {
				*out = append(*out, DiffItem{Path: p, Shape: sh, Kind: "value-changed", Note: clipS(valueText(fd, wv)) + " -> " + clipS(valueText(fd, gv))})
			}
		}
	}
	if !bytes.Equal(want.GetUnknown(), got.GetUnknown()) && !sameUnknownPerNumber(want.GetUnknown(), got.GetUnknown()) {
		*out = append(*out, DiffItem{Path: path + "<unknown>", Shape: "unknown-fields", Kind: "unknown-changed",
			Note: fmt.Sprintf("%x -> %x", clipB(want.GetUnknown()), clipB(got.GetUnknown()))})
	}
}

// sameUnknownPerNumber is message equality's view of unknown fields (proto.Equal): for every field number
// the raw occurrences are the same bytes in the same order; the relative order of different numbers is not
// part of a message's value.
func sameUnknownPerNumber(a, b protoreflect.RawFields) bool {
	split := func(u protoreflect.RawFields) (map[protowire.Number][]byte, bool) {
		m := map[protowire.Number][]byte{}
		for len(u) > 0 {
			num, _, n := protowire.ConsumeField(u)
			if n < 0 {
				return nil, false
			}
			m[num] = append(m[num], u[:n]...)
			u = u[n:]
		}
		return m, true
	}
	ma, ok1 := split(a)
	mb, ok2 := split(b)
	if !ok1 || !ok2 || len(ma) != len(mb) {
		return false
	}
	for n, x := range ma {
		if !bytes.Equal(x, mb[n]) {
			return false
		}
	}
	return true
}

func valueText(fd protoreflect.FieldDescriptor, v protoreflect.Value) string {
	if fd.IsList() || fd.IsMap() {
		return "(container)"
	}
	return valueBytes(fd, v)
}

func clipS(s string) string {
	if len(s) > 60 {
		return s[:60] + "..."
	}
	return s
}

func clipB(b []byte) []byte {
	if len(b) > 40 {
		return b[:40]
	}
	return b
}

// Text renders a dynamic message for witnesses.
func Text(m *dynamicpb.Message) (s string) {
	defer func() {
		if r := recover(); r != nil { // prototext panics on some malformed unknown fields
			b, _ := MarshalRef(m)
			s = fmt.Sprintf("(unprintable; wire hex %x)", clipB(b))
		}
	}()
	s = prototext.MarshalOptions{Multiline: false, AllowPartial: true}.Format(m)
	s = strings.Join(strings.Fields(s), " ")
	if len(s) > 1500 {
		s = s[:1500] + "..."
	}
	return s
}

// PopulatedShapes lists the distinct shapes of the populated fields of a message (recursively).
func PopulatedShapes(m protoreflect.Message) []string {
	set := map[string]bool{}
	var walk func(m protoreflect.Message, depth int)
	walk = func(m protoreflect.Message, depth int) {
		m.Range(func(fd protoreflect.FieldDescriptor, v protoreflect.Value) bool {
			set[Shape(fd)] = true
			if depth < 4 {
				switch {
				case fd.IsMap() && fd.MapValue().Kind() == protoreflect.MessageKind:
					v.Map().Range(func(_ protoreflect.MapKey, mv protoreflect.Value) bool { walk(mv.Message(), depth+1); return true })
				case fd.IsList() && fd.Kind() == protoreflect.MessageKind:
					for i := 0; i < v.List().Len(); i++ {
						walk(v.List().Get(i).Message(), depth+1)
					}
				case !fd.IsList() && !fd.IsMap() && fd.Kind() == protoreflect.MessageKind:
					walk(v.Message(), depth+1)
				}
			}
			return true
		})
	}
	walk(m, 0)
	var out []string
	for s := range set {
		out = append(out, s)
	}
	sort.Strings(out)
	return out
}
