package bridge

import (
	"fmt"
	"reflect"

	gogoproto "github.com/gogo/protobuf/proto"
	"google.golang.org/protobuf/reflect/protoreflect"
	"google.golang.org/protobuf/runtime/protoimpl"
	"google.golang.org/protobuf/types/dynamicpb"
)

// gogo keeps extensions in XXX_InternalExtensions, which protobuf-go's legacy wrapper cannot read, so
// they are moved through gogo's own extension API.

func (p *Pkg) gogoDesc(fn protoreflect.FullName) (*gogoproto.ExtensionDesc, error) {
	x := p.GenExt[fn]
	d, ok := x.(*gogoproto.ExtensionDesc)
	if !ok {
		return nil, fmt.Errorf("bridge: gogo extension variable %s is %T", fn, x)
	}
	return d, nil
}

func (p *Pkg) gogoExtOut(gm gogoproto.Message, d *dynamicpb.Message) error {
	for _, xt := range p.Exts[d.Descriptor().FullName()] {
		dfd := xt.TypeDescriptor()
		desc, err := p.gogoDesc(dfd.FullName())
		if err != nil {
			return err
		}
		if !gogoproto.HasExtension(gm, desc) {
			continue
		}
		val, err := gogoproto.GetExtension(gm, desc)
		if err != nil {
			return fmt.Errorf("bridge: gogo GetExtension(%s): %w", dfd.FullName(), err)
		}
		rv := reflect.ValueOf(val)
		if dfd.IsList() {
			dl := d.Mutable(dfd).List()
			for i := 0; i < rv.Len(); i++ {
				pv, err := p.goToPR(dfd, rv.Index(i), func() protoreflect.Value { return dl.NewElement() })
				if err != nil {
					return err
				}
				dl.Append(pv)
			}
			continue
		}
		if rv.Kind() == reflect.Ptr && dfd.Kind() != protoreflect.MessageKind {
			if rv.IsNil() {
				continue
			}
			rv = rv.Elem()
		}
		pv, err := p.goToPR(dfd, rv, func() protoreflect.Value { return d.NewField(dfd) })
		if err != nil {
			return err
		}
		d.Set(dfd, pv)
	}
	return nil
}

func (p *Pkg) goToPR(dfd protoreflect.FieldDescriptor, rv reflect.Value, newVal func() protoreflect.Value) (protoreflect.Value, error) {
	switch dfd.Kind() {
	case protoreflect.BoolKind:
		return protoreflect.ValueOfBool(rv.Bool()), nil
	case protoreflect.Int32Kind, protoreflect.Sint32Kind, protoreflect.Sfixed32Kind:
		return protoreflect.ValueOfInt32(int32(rv.Int())), nil
	case protoreflect.Int64Kind, protoreflect.Sint64Kind, protoreflect.Sfixed64Kind:
		return protoreflect.ValueOfInt64(rv.Int()), nil
	case protoreflect.Uint32Kind, protoreflect.Fixed32Kind:
		return protoreflect.ValueOfUint32(uint32(rv.Uint())), nil
	case protoreflect.Uint64Kind, protoreflect.Fixed64Kind:
		return protoreflect.ValueOfUint64(rv.Uint()), nil
	case protoreflect.FloatKind:
		return protoreflect.ValueOfFloat32(float32(rv.Float())), nil
	case protoreflect.DoubleKind:
		return protoreflect.ValueOfFloat64(rv.Float()), nil
	case protoreflect.StringKind:
		return protoreflect.ValueOfString(rv.String()), nil
	case protoreflect.BytesKind:
		return protoreflect.ValueOfBytes(append([]byte{}, rv.Bytes()...)), nil
	case protoreflect.EnumKind:
		return protoreflect.ValueOfEnum(protoreflect.EnumNumber(rv.Int())), nil
	case protoreflect.MessageKind:
		nv := newVal()
		dm := nv.Message().Interface().(*dynamicpb.Message)
		if err := p.copyOut(Reflect(rv.Interface()), dm, rv.Interface()); err != nil {
			return nv, err
		}
		return nv, nil
	}
	return protoreflect.Value{}, fmt.Errorf("bridge: unsupported extension kind %v", dfd.Kind())
}

func (p *Pkg) gogoExtIn(gen any, dfd protoreflect.FieldDescriptor, v protoreflect.Value) error {
	gm, ok := gen.(gogoproto.Message)
	if !ok {
		return fmt.Errorf("bridge: %T is not a gogo message", gen)
	}
	desc, err := p.gogoDesc(dfd.FullName())
	if err != nil {
		return err
	}
	t := reflect.TypeOf(desc.ExtensionType)
	var goVal reflect.Value
	if dfd.IsList() {
		goVal = reflect.MakeSlice(t, 0, v.List().Len())
		for i := 0; i < v.List().Len(); i++ {
			ev, err := p.prToGo(dfd, v.List().Get(i), t.Elem())
			if err != nil {
				return err
			}
			goVal = reflect.Append(goVal, ev)
		}
	} else if dfd.Kind() == protoreflect.MessageKind || dfd.Kind() == protoreflect.BytesKind {
		goVal, err = p.prToGo(dfd, v, t)
		if err != nil {
			return err
		}
	} else {
		ev, err := p.prToGo(dfd, v, t.Elem())
		if err != nil {
			return err
		}
		goVal = reflect.New(t.Elem())
		goVal.Elem().Set(ev)
	}
	return gogoproto.SetExtension(gm, desc, goVal.Interface())
}

func (p *Pkg) prToGo(dfd protoreflect.FieldDescriptor, v protoreflect.Value, t reflect.Type) (reflect.Value, error) {
	out := reflect.New(t).Elem()
	switch dfd.Kind() {
	case protoreflect.BoolKind:
		out.SetBool(v.Bool())
	case protoreflect.Int32Kind, protoreflect.Sint32Kind, protoreflect.Sfixed32Kind, protoreflect.Int64Kind, protoreflect.Sint64Kind, protoreflect.Sfixed64Kind:
		out.SetInt(v.Int())
	case protoreflect.Uint32Kind, protoreflect.Fixed32Kind, protoreflect.Uint64Kind, protoreflect.Fixed64Kind:
		out.SetUint(v.Uint())
	case protoreflect.FloatKind, protoreflect.DoubleKind:
		out.SetFloat(v.Float())
	case protoreflect.StringKind:
		out.SetString(v.String())
	case protoreflect.BytesKind:
		out.SetBytes(append([]byte{}, v.Bytes()...))
	case protoreflect.EnumKind:
		out.SetInt(int64(v.Enum()))
	case protoreflect.MessageKind:
		// t is *Msg
		msg := reflect.New(t.Elem())
		if err := p.copyIn(v.Message(), Reflect(msg.Interface()), msg.Interface()); err != nil {
			return out, err
		}
		return msg, nil
	default:
		return out, fmt.Errorf("bridge: unsupported extension kind %v", dfd.Kind())
	}
	return out, nil
}

// ExtDynToGo converts a dynamic extension value into the Go value the owning runtime's extension API
// expects (pointer-to-scalar / slice / *Msg for Gogo and Google V1, plain values for Google V2).
// v1ExtGoType returns the Go type (in the V1 convention) of an extension of a Gogo or Google-V1 package.
func (p *Pkg) v1ExtGoType(fn protoreflect.FullName) (reflect.Type, error) {
	switch d := p.GenExt[fn].(type) {
	case *gogoproto.ExtensionDesc:
		return reflect.TypeOf(d.ExtensionType), nil
	case *protoimpl.ExtensionInfo:
		if d.ExtensionType == nil {
			return nil, fmt.Errorf("bridge: %s has no legacy ExtensionType", fn)
		}
		return reflect.TypeOf(d.ExtensionType), nil
	}
	return nil, fmt.Errorf("bridge: extension variable %s is %T", fn, p.GenExt[fn])
}

func (p *Pkg) ExtDynToGo(dfd protoreflect.FieldDescriptor, v protoreflect.Value) (any, error) {
	if p.Flavour != "gv2" {
		t, err := p.v1ExtGoType(dfd.FullName())
		if err != nil {
			return nil, err
		}
		switch {
		case dfd.IsList():
			out := reflect.MakeSlice(t, 0, v.List().Len())
			for i := 0; i < v.List().Len(); i++ {
				ev, err := p.prToGo(dfd, v.List().Get(i), t.Elem())
				if err != nil {
					return nil, err
				}
				out = reflect.Append(out, ev)
			}
			return out.Interface(), nil
		case dfd.Kind() == protoreflect.MessageKind || dfd.Kind() == protoreflect.BytesKind:
			gv, err := p.prToGo(dfd, v, t)
			if err != nil {
				return nil, err
			}
			return gv.Interface(), nil
		}
		ev, err := p.prToGo(dfd, v, t.Elem())
		if err != nil {
			return nil, err
		}
		ptr := reflect.New(t.Elem())
		ptr.Elem().Set(ev)
		return ptr.Interface(), nil
	}
	xt, err := p.genExtType(dfd)
	if err != nil {
		return nil, err
	}
	scratch := Reflect(p.New(dfd.ContainingMessage().FullName()))
	if err := p.setGen(scratch, xt.TypeDescriptor(), dfd, v); err != nil {
		return nil, err
	}
	return xt.InterfaceOf(scratch.Get(xt.TypeDescriptor())), nil
}

// ExtGoToBytes canonicalises a Go extension value (as returned by a runtime's GetExtension) to the
// reference encoding of a message holding only that extension.
func (p *Pkg) ExtGoToBytes(dfd protoreflect.FieldDescriptor, goVal any) (b []byte, err error) {
	defer func() {
		if r := recover(); r != nil {
			err = fmt.Errorf("bridge: extension value %T not convertible: %v", goVal, r)
		}
	}()
	d := dynamicpb.NewMessage(dfd.ContainingMessage())
	if p.Flavour != "gv2" {
		rv := reflect.ValueOf(goVal)
		if dfd.IsList() {
			dl := d.Mutable(dfd).List()
			for i := 0; i < rv.Len(); i++ {
				pv, err := p.goToPR(dfd, rv.Index(i), func() protoreflect.Value { return dl.NewElement() })
				if err != nil {
					return nil, err
				}
				dl.Append(pv)
			}
		} else {
			if rv.Kind() == reflect.Ptr && dfd.Kind() != protoreflect.MessageKind {
				if rv.IsNil() {
					return nil, fmt.Errorf("nil extension value")
				}
				rv = rv.Elem()
			}
			pv, err := p.goToPR(dfd, rv, func() protoreflect.Value { return d.NewField(dfd) })
			if err != nil {
				return nil, err
			}
			d.Set(dfd, pv)
		}
		return MarshalRef(d)
	}
	xt, err := p.genExtType(dfd)
	if err != nil {
		return nil, err
	}
	if err := p.setDyn(d, dfd, xt.ValueOf(goVal)); err != nil {
		return nil, err
	}
	return MarshalRef(d)
}
