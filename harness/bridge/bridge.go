// Package bridge moves values between generated structs of the three runtimes and dynamic messages of the
// reference runtime (E4 of DESIGN.md). Generated structs are read and written through protobuf
// reflection, which is plain field access and never calls generated fast-marshal methods.
package bridge

import (
	"bytes"
	"errors"
	"fmt"
	"sort"

	gogoproto "github.com/gogo/protobuf/proto"
	"google.golang.org/protobuf/proto"
	"google.golang.org/protobuf/reflect/protodesc"
	"google.golang.org/protobuf/reflect/protoreflect"
	"google.golang.org/protobuf/reflect/protoregistry"
	"google.golang.org/protobuf/runtime/protoimpl"
	"google.golang.org/protobuf/types/descriptorpb"
	"google.golang.org/protobuf/types/dynamicpb"

	"verifharness/registry"
)

// Pkg is a generated package with its reference descriptors.
type Pkg struct {
	*registry.Package
	Files *protoregistry.Files
	File  protoreflect.FileDescriptor
	// Msgs: reference descriptors by full name, in declaration order
	Msgs    []protoreflect.MessageDescriptor
	msgByFN map[protoreflect.FullName]protoreflect.MessageDescriptor
	newByFN map[protoreflect.FullName]func() any
	// extension descriptors of the unit's file, by extendee and number (dynamic extension types)
	Exts     map[protoreflect.FullName][]protoreflect.ExtensionType
	extTypes *protoregistry.Types
	// generated extension descriptor variables by full name
	GenExt map[protoreflect.FullName]any
}

// Load builds the reference view of a registered package.
func Load(p *registry.Package) (*Pkg, error) {
	set := &descriptorpb.FileDescriptorSet{}
	if err := proto.Unmarshal(p.FDS, set); err != nil {
		return nil, err
	}
	files, err := protodesc.NewFiles(set)
	if err != nil {
		return nil, err
	}
	out := &Pkg{Package: p, Files: files, msgByFN: map[protoreflect.FullName]protoreflect.MessageDescriptor{},
		newByFN: map[protoreflect.FullName]func() any{}, Exts: map[protoreflect.FullName][]protoreflect.ExtensionType{},
		extTypes: &protoregistry.Types{}, GenExt: map[protoreflect.FullName]any{}}
	last := set.File[len(set.File)-1]
	fd, err := files.FindFileByPath(last.GetName())
	if err != nil {
		return nil, err
	}
	out.File = fd
	for _, m := range p.Messages {
		d, err := files.FindDescriptorByName(protoreflect.FullName(m.FullName))
		if err != nil {
			return nil, fmt.Errorf("message %s: %w", m.FullName, err)
		}
		md := d.(protoreflect.MessageDescriptor)
		out.Msgs = append(out.Msgs, md)
		out.msgByFN[md.FullName()] = md
		out.newByFN[md.FullName()] = m.New
	}
	var addExts func(xs protoreflect.ExtensionDescriptors)
	addExts = func(xs protoreflect.ExtensionDescriptors) {
		for i := 0; i < xs.Len(); i++ {
			xt := dynamicpb.NewExtensionType(xs.Get(i))
			ext := xs.Get(i).ContainingMessage().FullName()
			out.Exts[ext] = append(out.Exts[ext], xt)
			_ = out.extTypes.RegisterExtension(xt)
		}
	}
	addExts(fd.Extensions())
	var walk func(ms protoreflect.MessageDescriptors)
	walk = func(ms protoreflect.MessageDescriptors) {
		for i := 0; i < ms.Len(); i++ {
			addExts(ms.Get(i).Extensions())
			walk(ms.Get(i).Messages())
		}
	}
	walk(fd.Messages())
	for _, e := range p.Extensions {
		out.GenExt[protoreflect.FullName(e.FullName)] = e.Desc
	}
	return out, nil
}

// New creates a fresh generated message of the named type.
func (p *Pkg) New(fn protoreflect.FullName) any { return p.newByFN[fn]() }

// Desc returns the reference descriptor of a message.
func (p *Pkg) Desc(fn protoreflect.FullName) protoreflect.MessageDescriptor { return p.msgByFN[fn] }

// Resolver resolves the unit's extensions for the reference parser.
func (p *Pkg) Resolver() *protoregistry.Types { return p.extTypes }

// Reflect returns the reflective view of a generated message of any of the three runtimes.
func Reflect(gen any) protoreflect.Message {
	if m, ok := gen.(proto.Message); ok {
		return m.ProtoReflect()
	}
	return protoimpl.X.ProtoMessageV2Of(gen).ProtoReflect()
}

// UnmarshalRef parses b into a dynamic message of md with the reference runtime.
func (p *Pkg) UnmarshalRef(md protoreflect.MessageDescriptor, b []byte, allowPartial bool) (d *dynamicpb.Message, err error) {
	defer func() {
		// protobuf-go 1.36.4 itself panics on a few malformed inputs (e.g. a dynamic map entry without key
		// for some key kinds); such an input has no reference verdict
		if r := recover(); r != nil {
			err = fmt.Errorf("%w: %v", ErrReferencePanic, r)
		}
	}()
	d = dynamicpb.NewMessage(md)
	err = proto.UnmarshalOptions{AllowPartial: allowPartial, Resolver: p.extTypes}.Unmarshal(b, d)
	return d, err
}

// ErrReferencePanic marks inputs on which the reference runtime panicked.
var ErrReferencePanic = errors.New("reference runtime panicked")

// MarshalRef is the reference deterministic encoding of a dynamic message.
func MarshalRef(d proto.Message) ([]byte, error) {
	return proto.MarshalOptions{Deterministic: true, AllowPartial: true}.Marshal(d)
}

// Equal decides message equality on dynamic messages: proto.Equal and equal deterministic re-encoding
// (which makes NaN payloads and -0.0 count and is insensitive to map order).
func Equal(a, b *dynamicpb.Message) bool {
	ab, err1 := MarshalRef(a)
	bb, err2 := MarshalRef(b)
	if err1 != nil || err2 != nil {
		return false
	}
	if bytes.Equal(ab, bb) {
		return true
	}
	// deterministic encodings may differ only by NaN canonicalisation inside proto.Equal's view; bytes
	// are the stricter criterion and the one used
	return false
}

// ---------------------------------------------------------------------------------------------------
// generated -> dynamic

// ToDynamic copies a generated message into a dynamic message of the reference descriptor.
func (p *Pkg) ToDynamic(gen any) (d *dynamicpb.Message, err error) {
	defer func() {
		if r := recover(); r != nil {
			err = fmt.Errorf("bridge: ToDynamic panicked: %v", r)
		}
	}()
	s := Reflect(gen)
	md := p.msgByFN[s.Descriptor().FullName()]
	if md == nil {
		return nil, fmt.Errorf("bridge: no reference descriptor for %s", s.Descriptor().FullName())
	}
	d = dynamicpb.NewMessage(md)
	if err := p.copyOut(s, d, gen); err != nil {
		return nil, err
	}
	return d, nil
}

func (p *Pkg) copyOut(s protoreflect.Message, d *dynamicpb.Message, gen any) error {
	md := d.Descriptor()
	var err error
	s.Range(func(fd protoreflect.FieldDescriptor, v protoreflect.Value) bool {
		var dfd protoreflect.FieldDescriptor
		if fd.IsExtension() {
			dfd = p.dynExt(md.FullName(), fd.Number())
		} else {
			dfd = md.Fields().ByNumber(fd.Number())
		}
		if dfd == nil {
			err = fmt.Errorf("bridge: field %d of %s not in reference descriptor", fd.Number(), md.FullName())
			return false
		}
		if e := p.setDyn(d, dfd, v); e != nil {
			err = e
			return false
		}
		return true
	})
	if err != nil {
		return err
	}
	d.SetUnknown(append(protoreflect.RawFields(nil), s.GetUnknown()...))
	// gogo keeps extensions in its own container that the legacy wrapper does not understand
	if p.Flavour == "gogo" && gen != nil && md.ExtensionRanges().Len() > 0 {
		if gm, ok := gen.(gogoproto.Message); ok {
			if e := p.gogoExtOut(gm, d); e != nil {
				return e
			}
		}
	}
	return nil
}

func (p *Pkg) dynExt(extendee protoreflect.FullName, num protoreflect.FieldNumber) protoreflect.FieldDescriptor {
	for _, xt := range p.Exts[extendee] {
		if xt.TypeDescriptor().Number() == num {
			return xt.TypeDescriptor()
		}
	}
	return nil
}

// setDyn stores a value read through reflection from a generated message into the dynamic message.
func (p *Pkg) setDyn(d *dynamicpb.Message, dfd protoreflect.FieldDescriptor, v protoreflect.Value) error {
	switch {
	case dfd.IsMap():
		dm := d.Mutable(dfd).Map()
		var err error
		v.Map().Range(func(k protoreflect.MapKey, mv protoreflect.Value) bool {
			cv, e := p.convOut(dfd.MapValue(), mv, func() protoreflect.Value { return dm.NewValue() })
			if e != nil {
				err = e
				return false
			}
			dm.Set(k, cv)
			return true
		})
		return err
	case dfd.IsList():
		dl := d.Mutable(dfd).List()
		sl := v.List()
		for i := 0; i < sl.Len(); i++ {
			cv, err := p.convOut(dfd, sl.Get(i), func() protoreflect.Value { return dl.NewElement() })
			if err != nil {
				return err
			}
			dl.Append(cv)
		}
		return nil
	default:
		cv, err := p.convOut(dfd, v, func() protoreflect.Value { return d.NewField(dfd) })
		if err != nil {
			return err
		}
		d.Set(dfd, cv)
		return nil
	}
}

func (p *Pkg) convOut(dfd protoreflect.FieldDescriptor, v protoreflect.Value, newVal func() protoreflect.Value) (protoreflect.Value, error) {
	switch dfd.Kind() {
	case protoreflect.MessageKind, protoreflect.GroupKind:
		nv := newVal()
		dm, ok := nv.Message().Interface().(*dynamicpb.Message)
		if !ok {
			return nv, fmt.Errorf("bridge: unexpected message implementation")
		}
		if err := p.copyOutAny(v.Message(), dm); err != nil {
			return nv, err
		}
		return nv, nil
	case protoreflect.BytesKind:
		return protoreflect.ValueOfBytes(append([]byte{}, v.Bytes()...)), nil
	default:
		return v, nil
	}
}

// copyOutAny copies a nested message, which may belong to another file (well-known types): fields are
// matched by number against the destination descriptor.
func (p *Pkg) copyOutAny(s protoreflect.Message, d *dynamicpb.Message) error {
	var gen any
	if p.Flavour == "gogo" && s.IsValid() {
		// recover the gogo struct for extension access
		if u, ok := s.Interface().(interface{ ProtoUnwrap() any }); ok {
			gen = u.ProtoUnwrap()
		}
	}
	return p.copyOut(s, d, gen)
}

// ---------------------------------------------------------------------------------------------------
// dynamic -> generated

// FromDynamic populates a fresh generated message from a dynamic one.
func (p *Pkg) FromDynamic(d *dynamicpb.Message, gen any) (err error) {
	defer func() {
		if r := recover(); r != nil {
			err = fmt.Errorf("bridge: FromDynamic panicked: %v", r)
		}
	}()
	return p.copyIn(d, Reflect(gen), gen)
}

func (p *Pkg) copyIn(d protoreflect.Message, g protoreflect.Message, gen any) error {
	gmd := g.Descriptor()
	var err error
	d.Range(func(dfd protoreflect.FieldDescriptor, v protoreflect.Value) bool {
		if dfd.IsExtension() {
			if p.Flavour == "gogo" {
				err = p.gogoExtIn(gen, dfd, v)
				return err == nil
			}
			xt, e := p.genExtType(dfd)
			if e != nil {
				err = e
				return false
			}
			err = p.setGen(g, xt.TypeDescriptor(), dfd, v)
			return err == nil
		}
		gfd := gmd.Fields().ByNumber(dfd.Number())
		if gfd == nil {
			err = fmt.Errorf("bridge: field %d missing in generated type %s", dfd.Number(), gmd.FullName())
			return false
		}
		err = p.setGen(g, gfd, dfd, v)
		return err == nil
	})
	if err != nil {
		return err
	}
	if u := d.GetUnknown(); len(u) > 0 {
		g.SetUnknown(append(protoreflect.RawFields(nil), u...))
	}
	return nil
}

func (p *Pkg) genExtType(dfd protoreflect.FieldDescriptor) (protoreflect.ExtensionType, error) {
	x := p.GenExt[dfd.FullName()]
	if x == nil {
		return nil, fmt.Errorf("bridge: no generated extension variable for %s", dfd.FullName())
	}
	xt, ok := x.(protoreflect.ExtensionType)
	if !ok {
		return nil, fmt.Errorf("bridge: extension variable %s is %T", dfd.FullName(), x)
	}
	return xt, nil
}

func (p *Pkg) setGen(g protoreflect.Message, gfd, dfd protoreflect.FieldDescriptor, v protoreflect.Value) error {
	switch {
	case dfd.IsMap():
		gm := g.Mutable(gfd).Map()
		var err error
		v.Map().Range(func(k protoreflect.MapKey, mv protoreflect.Value) bool {
			cv, e := p.convIn(gfd.MapValue(), mv, func() protoreflect.Value { return gm.NewValue() })
			if e != nil {
				err = e
				return false
			}
			gm.Set(k, cv)
			return true
		})
		return err
	case dfd.IsList():
		gl := g.Mutable(gfd).List()
		dl := v.List()
		for i := 0; i < dl.Len(); i++ {
			cv, err := p.convIn(gfd, dl.Get(i), func() protoreflect.Value { return gl.NewElement() })
			if err != nil {
				return err
			}
			gl.Append(cv)
		}
		return nil
	default:
		cv, err := p.convIn(gfd, v, func() protoreflect.Value { return g.NewField(gfd) })
		if err != nil {
			return err
		}
		g.Set(gfd, cv)
		return nil
	}
}

func (p *Pkg) convIn(gfd protoreflect.FieldDescriptor, v protoreflect.Value, newVal func() protoreflect.Value) (protoreflect.Value, error) {
	switch gfd.Kind() {
	case protoreflect.MessageKind, protoreflect.GroupKind:
		nv := newVal()
		var gen any
		if u, ok := nv.Message().Interface().(interface{ ProtoUnwrap() any }); ok {
			gen = u.ProtoUnwrap()
		}
		if err := p.copyIn(v.Message(), nv.Message(), gen); err != nil {
			return nv, err
		}
		return nv, nil
	case protoreflect.BytesKind:
		return protoreflect.ValueOfBytes(append([]byte{}, v.Bytes()...)), nil
	default:
		return v, nil
	}
}

// SortedFieldNumbers lists the numbers of the populated fields of a message.
func SortedFieldNumbers(m protoreflect.Message) []int {
	var ns []int
	m.Range(func(fd protoreflect.FieldDescriptor, _ protoreflect.Value) bool {
		ns = append(ns, int(fd.Number()))
		return true
	})
	sort.Ints(ns)
	return ns
}
