// Package registry is the glue through which generated packages of the schema corpus announce
// themselves to the workload binary that links them.
package registry

// Message is one generated message type.
type Message struct {
	// FullName is the fully-qualified protobuf name
	FullName string
	New      func() any
}

// Extension is one generated extension descriptor variable (E_...).
type Extension struct {
	FullName string
	Desc     any
}

// Package describes one generated Go package (unit x flavour x option set).
type Package struct {
	Unit    string
	Flavour string // gogo | gv1 | gv2
	OptKey  string // "plain" (no fast-marshal code) or the option tuple key
	GoPkg   string
	Group   string
	Origin  string
	Syntax  string
	Atoms   []string
	// Fast: the package contains protoc-gen-fastmarshal output
	Fast bool
	// FilePerMessage / UnsafeDecode: the generator options used
	FilePerMessage bool
	UnsafeDecode   bool
	// FDS is a serialized FileDescriptorSet: dependencies first, the unit's file last
	FDS        []byte
	Messages   []Message
	Extensions []Extension
}

// Packages lists everything linked into this binary.
var Packages []*Package

// Register is called from the init functions of the generated glue files.
func Register(p *Package) { Packages = append(Packages, p) }
