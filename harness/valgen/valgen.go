// Package valgen produces message values on dynamic messages from descriptors only (E3 of DESIGN.md):
// boundary values one field at a time, then seeded random combinations.
package valgen

import (
	"math"
	"strings"

	"google.golang.org/protobuf/reflect/protoreflect"
	"google.golang.org/protobuf/types/dynamicpb"

	"verifharness/monitor"
)

// Gen generates values.
type Gen struct {
	R *monitor.Rand
	// ExtsFor returns the extension fields declared (in the unit) for a message
	ExtsFor func(protoreflect.FullName) []protoreflect.ExtensionType
	// NoExt suppresses extension fields
	NoExt bool
	// LeaveRequired: do not force required fields (C17)
	LeaveRequired bool
}

// Case is a generated value with a short class label.
type Case struct {
	Msg   *dynamicpb.Message
	Class string // e.g. "empty", "f_int32=min", "random"
	Field string // name of the single field populated (boundary cases)
}

func quietNaN32(payload uint32) float32 {
	return math.Float32frombits(0x7fc00000 | payload&0x3fffff)
}
func quietNaN64(payload uint64) float64 {
	return math.Float64frombits(0x7ff8000000000000 | payload&0x7ffffffffffff)
}

// scalarBoundaries returns labelled boundary values of a scalar kind.
func scalarBoundaries(fd protoreflect.FieldDescriptor) ([]protoreflect.Value, []string) {
	var vs []protoreflect.Value
	var ls []string
	add := func(l string, v protoreflect.Value) { vs = append(vs, v); ls = append(ls, l) }
	switch fd.Kind() {
	case protoreflect.BoolKind:
		add("false", protoreflect.ValueOfBool(false))
		add("true", protoreflect.ValueOfBool(true))
	case protoreflect.Int32Kind, protoreflect.Sint32Kind, protoreflect.Sfixed32Kind:
		for _, x := range []int32{0, 1, -1, 127, 128, -128, -129, 16383, 16384, 1<<21 - 1, 1 << 21, 1<<28 - 1, 1 << 28, math.MaxInt32, math.MinInt32, -64, -65, 63, 64} {
			add(i64label(int64(x)), protoreflect.ValueOfInt32(x))
		}
	case protoreflect.Int64Kind, protoreflect.Sint64Kind, protoreflect.Sfixed64Kind:
		for _, x := range []int64{0, 1, -1, 127, 128, -128, 16384, 1<<35 - 1, 1 << 35, 1<<42 - 1, 1 << 49, 1<<56 - 1, 1 << 56, math.MaxInt32, math.MinInt32, math.MaxInt32 + 1, math.MinInt32 - 1, math.MaxInt64, math.MinInt64, 1 << 62} {
			add(i64label(x), protoreflect.ValueOfInt64(x))
		}
	case protoreflect.Uint32Kind, protoreflect.Fixed32Kind:
		for _, x := range []uint32{0, 1, 127, 128, 16383, 16384, 1<<21 - 1, 1 << 21, 1<<28 - 1, 1 << 28, math.MaxInt32, 1 << 31, math.MaxUint32} {
			add(u64label(uint64(x)), protoreflect.ValueOfUint32(x))
		}
	case protoreflect.Uint64Kind, protoreflect.Fixed64Kind:
		for _, x := range []uint64{0, 1, 127, 128, 16384, 1<<35 - 1, 1 << 35, 1 << 42, 1 << 49, 1<<56 - 1, 1 << 56, math.MaxUint32, math.MaxUint32 + 1, math.MaxInt64, 1 << 63, math.MaxUint64} {
			add(u64label(x), protoreflect.ValueOfUint64(x))
		}
	case protoreflect.FloatKind:
		for i, x := range []float32{0, float32(math.Copysign(0, -1)), 1, -1, float32(math.Inf(1)), float32(math.Inf(-1)), quietNaN32(0), quietNaN32(0x12345), -quietNaN32(1), math.MaxFloat32, math.SmallestNonzeroFloat32, 1.5} {
			add("f"+string(rune('a'+i)), protoreflect.ValueOfFloat32(x))
		}
	case protoreflect.DoubleKind:
		for i, x := range []float64{0, math.Copysign(0, -1), 1, -1, math.Inf(1), math.Inf(-1), quietNaN64(0), quietNaN64(0x123456789), -quietNaN64(1), math.MaxFloat64, math.SmallestNonzeroFloat64, 1.5} {
			add("d"+string(rune('a'+i)), protoreflect.ValueOfFloat64(x))
		}
	case protoreflect.StringKind:
		for _, x := range []string{"", "a", strings.Repeat("x", 127), strings.Repeat("y", 128), "héllo wörld ✓ 世界", strings.Repeat("long-", 4096)} {
			add("len"+u64label(uint64(len(x))), protoreflect.ValueOfString(x))
		}
	case protoreflect.BytesKind:
		for _, x := range [][]byte{{}, {0}, {0xff, 0x00, 0x80}, []byte(strings.Repeat("\x01", 127)), []byte(strings.Repeat("\x02", 128)), []byte(strings.Repeat("\x00\xff", 10240))} {
			add("len"+u64label(uint64(len(x))), protoreflect.ValueOfBytes(x))
		}
	case protoreflect.EnumKind:
		evs := fd.Enum().Values()
		seen := map[protoreflect.EnumNumber]bool{}
		for i := 0; i < evs.Len(); i++ {
			n := evs.Get(i).Number()
			if !seen[n] {
				seen[n] = true
				add("enum"+i64label(int64(n)), protoreflect.ValueOfEnum(n))
			}
		}
		if !enumClosed(fd) { // open enum: undeclared numbers are legal values
			for _, n := range []protoreflect.EnumNumber{99, -99, math.MaxInt32 - 1} {
				if !seen[n] {
					add("enum-undeclared"+i64label(int64(n)), protoreflect.ValueOfEnum(n))
				}
			}
		}
	}
	return vs, ls
}

// containerBoundaries is scalarBoundaries without the 20 KiB string/bytes value (lists and maps repeat their
// elements; the long value is exercised in singular position).
func containerBoundaries(fd protoreflect.FieldDescriptor) ([]protoreflect.Value, []string) {
	vs, ls := scalarBoundaries(fd)
	if fd.Kind() == protoreflect.StringKind || fd.Kind() == protoreflect.BytesKind {
		return vs[:len(vs)-1], ls[:len(ls)-1]
	}
	return vs, ls
}

func enumClosed(fd protoreflect.FieldDescriptor) bool {
	return fd.Enum().ParentFile().Syntax() == protoreflect.Proto2
}

func i64label(x int64) string {
	switch x {
	case math.MaxInt64:
		return "maxint64"
	case math.MinInt64:
		return "minint64"
	case math.MaxInt32:
		return "maxint32"
	case math.MinInt32:
		return "minint32"
	}
	if x < 0 {
		return "-" + u64label(uint64(-x))
	}
	return u64label(uint64(x))
}

func u64label(x uint64) string {
	if x == 0 {
		return "0"
	}
	var b [20]byte
	i := len(b)
	for x > 0 {
		i--
		b[i] = byte('0' + x%10)
		x /= 10
	}
	return string(b[i:])
}

// fieldsOf lists regular fields plus (unless suppressed) the extension fields known for the message.
func (g *Gen) fieldsOf(md protoreflect.MessageDescriptor) []protoreflect.FieldDescriptor {
	var fs []protoreflect.FieldDescriptor
	for i := 0; i < md.Fields().Len(); i++ {
		fs = append(fs, md.Fields().Get(i))
	}
	if !g.NoExt && g.ExtsFor != nil {
		for _, xt := range g.ExtsFor(md.FullName()) {
			fs = append(fs, xt.TypeDescriptor())
		}
	}
	return fs
}

// fillRequired sets every required field (recursively) to a non-trivial value.
func (g *Gen) fillRequired(m *dynamicpb.Message, depth int) {
	if g.LeaveRequired {
		return
	}
	md := m.Descriptor()
	for i := 0; i < md.Fields().Len(); i++ {
		fd := md.Fields().Get(i)
		if fd.Cardinality() != protoreflect.Required || m.Has(fd) {
			continue
		}
		m.Set(fd, g.randomSingular(m, fd, depth+1))
	}
}

// Boundary returns the empty message and, for every field, the message with that field alone set to
// each boundary value / container shape.
func (g *Gen) Boundary(md protoreflect.MessageDescriptor) []Case {
	var out []Case
	mk := func() *dynamicpb.Message {
		m := dynamicpb.NewMessage(md)
		g.fillRequired(m, 0)
		return m
	}
	out = append(out, Case{Msg: mk(), Class: "empty"})
	for _, fd := range g.fieldsOf(md) {
		name := string(fd.Name())
		switch {
		case fd.IsMap():
			for _, n := range []int{0, 1, 3, 5} {
				m := mk()
				mp := m.Mutable(fd).Map()
				for i := 0; i < n; i++ {
					k := g.mapKey(fd.MapKey(), i)
					mp.Set(k, g.mapVal(mp, fd.MapValue(), i))
				}
				out = append(out, Case{Msg: m, Class: "map-n" + u64label(uint64(n)), Field: name})
			}
			if fd.MapKey().Kind() == protoreflect.StringKind {
				// one entry whose key alone pushes the entry size over the one-byte length limit (117..135 bytes)
				for _, kl := range []int{117, 121, 127, 135} {
					m := mk()
					mp := m.Mutable(fd).Map()
					mp.Set(protoreflect.ValueOfString(strings.Repeat("L", kl)).MapKey(), g.mapVal(mp, fd.MapValue(), 1))
					out = append(out, Case{Msg: m, Class: "map-longkey" + u64label(uint64(kl)), Field: name})
				}
			}
		case fd.IsList():
			if fd.Kind() == protoreflect.MessageKind {
				for _, shape := range []string{"one-empty", "one", "empty+full+empty", "three"} {
					m := mk()
					l := m.Mutable(fd).List()
					add := func(empty bool) {
						e := l.NewElement()
						if !empty {
							g.populate(e.Message().Interface().(*dynamicpb.Message), 2, 3)
						} else {
							g.fillRequired(e.Message().Interface().(*dynamicpb.Message), 1)
						}
						l.Append(e)
					}
					switch shape {
					case "one-empty":
						add(true)
					case "one":
						add(false)
					case "empty+full+empty":
						add(true)
						add(false)
						add(true)
					default:
						add(false)
						add(false)
						add(false)
					}
					out = append(out, Case{Msg: m, Class: "list-msg-" + shape, Field: name})
				}
				continue
			}
			vs, _ := containerBoundaries(fd)
			for _, n := range []int{1, 2, 127, 128} {
				m := mk()
				l := m.Mutable(fd).List()
				for i := 0; i < n; i++ {
					l.Append(vs[(i*7+n)%len(vs)])
				}
				out = append(out, Case{Msg: m, Class: "list-n" + u64label(uint64(n)), Field: name})
			}
			// lists made of one repeated boundary value (zero, negative, max ...)
			for i, v := range vs {
				if i >= 8 {
					break
				}
				m := mk()
				l := m.Mutable(fd).List()
				l.Append(v)
				l.Append(v)
				out = append(out, Case{Msg: m, Class: "list-2x-boundary", Field: name})
			}
		case fd.Kind() == protoreflect.MessageKind:
			for _, shape := range []string{"empty", "full"} {
				m := mk()
				c := m.NewField(fd)
				cm := c.Message().Interface().(*dynamicpb.Message)
				if shape == "full" {
					g.populate(cm, 2, 4)
				} else {
					g.fillRequired(cm, 1)
				}
				m.Set(fd, c)
				out = append(out, Case{Msg: m, Class: "msg-" + shape, Field: name})
			}
		default:
			vs, ls := scalarBoundaries(fd)
			for i, v := range vs {
				if !fd.HasPresence() && isZero(fd, v) {
					// implicit presence: the zero value is "unset"; still generate it (it must round-trip as unset)
				}
				m := mk()
				m.Set(fd, v)
				out = append(out, Case{Msg: m, Class: "scalar=" + ls[i], Field: name})
			}
		}
	}
	return out
}

func isZero(fd protoreflect.FieldDescriptor, v protoreflect.Value) bool {
	switch fd.Kind() {
	case protoreflect.BoolKind:
		return !v.Bool()
	case protoreflect.StringKind:
		return v.String() == ""
	case protoreflect.BytesKind:
		return len(v.Bytes()) == 0
	case protoreflect.FloatKind, protoreflect.DoubleKind:
		return math.Float64bits(v.Float()) == 0
	case protoreflect.EnumKind:
		return v.Enum() == 0
	case protoreflect.Int32Kind, protoreflect.Sint32Kind, protoreflect.Sfixed32Kind, protoreflect.Int64Kind, protoreflect.Sint64Kind, protoreflect.Sfixed64Kind:
		return v.Int() == 0
	default:
		return v.Uint() == 0
	}
}

func (g *Gen) mapKey(kfd protoreflect.FieldDescriptor, i int) protoreflect.MapKey {
	switch kfd.Kind() {
	case protoreflect.BoolKind:
		return protoreflect.ValueOfBool(i%2 == 1).MapKey()
	case protoreflect.StringKind:
		if i%7 == 3 {
			// long keys: the entry's own length prefix then needs two bytes whatever the value kind
			return protoreflect.ValueOfString(strings.Repeat("K", 116+i)).MapKey()
		}
		return protoreflect.ValueOfString([]string{"", "k", "key-✓"}[i%3] + strings.Repeat("z", i/3)).MapKey()
	case protoreflect.Int32Kind, protoreflect.Sint32Kind, protoreflect.Sfixed32Kind:
		return protoreflect.ValueOfInt32([]int32{0, -1, math.MaxInt32, math.MinInt32, 300}[i%5] + int32(i/5)).MapKey()
	case protoreflect.Int64Kind, protoreflect.Sint64Kind, protoreflect.Sfixed64Kind:
		return protoreflect.ValueOfInt64([]int64{0, -1, math.MaxInt64, math.MinInt64 + 1, 1 << 40}[i%5] - int64(i/5)).MapKey()
	case protoreflect.Uint32Kind, protoreflect.Fixed32Kind:
		return protoreflect.ValueOfUint32([]uint32{0, 1, math.MaxUint32, 300}[i%4] - uint32(i/4)).MapKey()
	default:
		return protoreflect.ValueOfUint64([]uint64{0, 1, math.MaxUint64, 1 << 40}[i%4] - uint64(i/4)).MapKey()
	}
}

func (g *Gen) mapVal(mp protoreflect.Map, vfd protoreflect.FieldDescriptor, i int) protoreflect.Value {
	if vfd.Kind() == protoreflect.MessageKind {
		v := mp.NewValue()
		cm := v.Message().Interface().(*dynamicpb.Message)
		if i%2 == 1 {
			g.populate(cm, 2, 3)
		} else {
			g.fillRequired(cm, 1)
		}
		return v
	}
	vs, _ := containerBoundaries(vfd)
	return vs[i%len(vs)] // index 0 is the zero / empty value
}

// randomSingular returns a random value for a singular (non-list, non-map) field.
func (g *Gen) randomSingular(parent *dynamicpb.Message, fd protoreflect.FieldDescriptor, depth int) protoreflect.Value {
	if fd.Kind() == protoreflect.MessageKind {
		v := parent.NewField(fd)
		cm := v.Message().Interface().(*dynamicpb.Message)
		if depth < 4 && !g.R.Chance(1, 5) {
			g.populate(cm, depth+1, 4)
		} else {
			g.fillRequired(cm, depth+1)
		}
		return v
	}
	vs, _ := scalarBoundaries(fd)
	if g.R.Chance(1, 2) {
		return vs[g.R.Intn(len(vs))]
	}
	return g.randomScalar(fd)
}

func (g *Gen) randomScalar(fd protoreflect.FieldDescriptor) protoreflect.Value {
	r := g.R
	bits := func() uint64 {
		l := r.Intn(65)
		v := r.Uint64()
		if l < 64 {
			v &= (1 << uint(l)) - 1
		}
		if r.Chance(1, 4) {
			v = -v
		}
		return v
	}
	switch fd.Kind() {
	case protoreflect.BoolKind:
		return protoreflect.ValueOfBool(r.Bool())
	case protoreflect.Int32Kind, protoreflect.Sint32Kind, protoreflect.Sfixed32Kind:
		return protoreflect.ValueOfInt32(int32(bits()))
	case protoreflect.Int64Kind, protoreflect.Sint64Kind, protoreflect.Sfixed64Kind:
		return protoreflect.ValueOfInt64(int64(bits()))
	case protoreflect.Uint32Kind, protoreflect.Fixed32Kind:
		return protoreflect.ValueOfUint32(uint32(bits()))
	case protoreflect.Uint64Kind, protoreflect.Fixed64Kind:
		return protoreflect.ValueOfUint64(bits())
	case protoreflect.FloatKind:
		f := math.Float32frombits(uint32(r.Uint64()))
		if f != f {
			f = quietNaN32(uint32(r.Uint64()))
		}
		return protoreflect.ValueOfFloat32(f)
	case protoreflect.DoubleKind:
		f := math.Float64frombits(r.Uint64())
		if f != f {
			f = quietNaN64(r.Uint64())
		}
		return protoreflect.ValueOfFloat64(f)
	case protoreflect.StringKind:
		n := r.Intn(24)
		if r.Chance(1, 20) {
			n = 200 + r.Intn(400)
		}
		var sb strings.Builder
		if r.Chance(1, 3) {
			// text that is significant to the JSON and text formats (the binary format does not care)
			tokens := []string{"\\", "\"", ", ", ":  ", "{", "}", "[", "]", "\\\"", "\\\\", "a", " ", "null", "\n", "\t", ",", ":", "\u2028", "<", "&", "'", "\x01", "/", "é"}
			for i, k := 0, 1+r.Intn(7); i < k; i++ {
				sb.WriteString(tokens[r.Intn(len(tokens))])
			}
			return protoreflect.ValueOfString(sb.String())
		}
		alphabet := []rune("abcXYZ 019_-é✓世")
		for i := 0; i < n; i++ {
			sb.WriteRune(alphabet[r.Intn(len(alphabet))])
		}
		return protoreflect.ValueOfString(sb.String())
	case protoreflect.BytesKind:
		n := r.Intn(24)
		if r.Chance(1, 20) {
			n = 200 + r.Intn(400)
		}
		return protoreflect.ValueOfBytes(r.Bytes(n))
	case protoreflect.EnumKind:
		vs, _ := scalarBoundaries(fd)
		return vs[r.Intn(len(vs))]
	}
	panic("valgen: unexpected kind")
}

// populate sets a random subset of the fields of m.
func (g *Gen) populate(m *dynamicpb.Message, depth, maxFields int) {
	md := m.Descriptor()
	fs := g.fieldsOf(md)
	if len(fs) == 0 {
		return
	}
	n := 1 + g.R.Intn(maxFields)
	oneofDone := map[protoreflect.FullName]bool{}
	for i := 0; i < n; i++ {
		fd := fs[g.R.Intn(len(fs))]
		if od := fd.ContainingOneof(); od != nil && !od.IsSynthetic() {
			if oneofDone[od.FullName()] {
				continue
			}
			oneofDone[od.FullName()] = true
		}
		switch {
		case fd.IsMap():
			mp := m.Mutable(fd).Map()
			for k := g.R.Intn(4); k > 0; k-- {
				kv := g.mapKey(fd.MapKey(), g.R.Intn(12))
				if fd.MapValue().Kind() == protoreflect.MessageKind {
					v := mp.NewValue()
					if depth < 4 {
						g.populate(v.Message().Interface().(*dynamicpb.Message), depth+1, 3)
					} else {
						g.fillRequired(v.Message().Interface().(*dynamicpb.Message), depth+1)
					}
					mp.Set(kv, v)
				} else if g.R.Bool() {
					mp.Set(kv, g.randomScalar(fd.MapValue()))
				} else {
					mp.Set(kv, g.mapVal(mp, fd.MapValue(), g.R.Intn(8)))
				}
			}
		case fd.IsList():
			l := m.Mutable(fd).List()
			cnt := g.R.Intn(5)
			if fd.Kind() == protoreflect.MessageKind {
				// keep recursive types from exploding: fewer elements the deeper we are
				if depth >= 2 {
					cnt = g.R.Intn(3)
				}
			} else if g.R.Chance(1, 15) {
				cnt = 100 + g.R.Intn(60)
			}
			for k := 0; k < cnt; k++ {
				if fd.Kind() == protoreflect.MessageKind {
					e := l.NewElement()
					if depth < 4 && !g.R.Chance(1, 4) {
						g.populate(e.Message().Interface().(*dynamicpb.Message), depth+1, 3)
					} else {
						g.fillRequired(e.Message().Interface().(*dynamicpb.Message), depth+1)
					}
					l.Append(e)
				} else if g.R.Bool() {
					l.Append(g.randomScalar(fd))
				} else {
					vs, _ := containerBoundaries(fd)
					l.Append(vs[g.R.Intn(len(vs))])
				}
			}
		default:
			m.Set(fd, g.randomSingular(m, fd, depth))
		}
	}
	g.fillRequired(m, depth)
}

// Random returns a random message of the type.
func (g *Gen) Random(md protoreflect.MessageDescriptor) Case {
	m := dynamicpb.NewMessage(md)
	g.populate(m, 0, 8)
	return Case{Msg: m, Class: "random"}
}

// RandomScalarValue returns a random value of a scalar field's kind.
func (g *Gen) RandomScalarValue(fd protoreflect.FieldDescriptor) protoreflect.Value {
	if g.R.Chance(1, 3) {
		vs, _ := scalarBoundaries(fd)
		return vs[g.R.Intn(len(vs))]
	}
	return g.randomScalar(fd)
}
