// Package plugindrv plays protoc's role: it hands CodeGeneratorRequests to protoc plug-in binaries and
// collects their CodeGeneratorResponses.
package plugindrv

import (
	"bytes"
	"fmt"
	"os/exec"

	"google.golang.org/protobuf/proto"
	"google.golang.org/protobuf/types/descriptorpb"
	"google.golang.org/protobuf/types/pluginpb"
)

// Result of one plug-in invocation.
type Result struct {
	Response *pluginpb.CodeGeneratorResponse
	Stderr   string
	// ExecErr is set when the process could not be run or exited non-zero (crash)
	ExecErr error
	Raw     []byte
}

// Run sends one request to the plug-in binary.
func Run(bin string, files []*descriptorpb.FileDescriptorProto, toGenerate []string, parameter string) *Result {
	req := &pluginpb.CodeGeneratorRequest{
		FileToGenerate:  toGenerate,
		ProtoFile:       files,
		CompilerVersion: &pluginpb.Version{Major: proto.Int32(3), Minor: proto.Int32(21), Patch: proto.Int32(12)},
	}
	if parameter != "" {
		req.Parameter = proto.String(parameter)
	}
	in, err := proto.Marshal(req)
	if err != nil {
		return &Result{ExecErr: fmt.Errorf("marshal request: %w", err)}
	}
	cmd := exec.Command(bin)
	cmd.Stdin = bytes.NewReader(in)
	var out, errb bytes.Buffer
	cmd.Stdout = &out
	cmd.Stderr = &errb
	r := &Result{}
	if err := cmd.Run(); err != nil {
		r.ExecErr = err
	}
	r.Stderr = errb.String()
	r.Raw = out.Bytes()
	if r.ExecErr == nil {
		resp := &pluginpb.CodeGeneratorResponse{}
		if err := proto.Unmarshal(out.Bytes(), resp); err != nil {
			r.ExecErr = fmt.Errorf("unparsable response: %w", err)
		} else {
			r.Response = resp
		}
	}
	return r
}
