package genwl

import (
	"bytes"
	"fmt"
	"os"
	"time"

	"google.golang.org/protobuf/reflect/protoreflect"
	"google.golang.org/protobuf/types/dynamicpb"

	"verifharness/bridge"
	"verifharness/monitor"
)

// shrinking is expensive; the same (flavour, variant, failure) is shrunk only a bounded number of times per
// process, later occurrences are counted under the signature already derived
var (
	shrinkBudget = map[string]int{}
	shrinkSig    = map[string]string{}
)

type c06Outcome struct {
	fail  string // "", "harness", "generator", "rejected", "panic:...", "diff", "dest-dependent"
	what  string
	items []bridge.DiffItem
	bytes []byte
	skip  bool // variant did not change the encoding
}

// c06Check encodes d with the variant (deterministically from seedKey), decodes with the generated
// Unmarshal into a pre-populated destination and compares with the reference parse.
func c06Check(cfg *config, t target, d *dynamicpb.Message, v *variant, seedKey string, c07 bool) (out c06Outcome) {
	enc := &venc{v: v, r: monitor.NewRand(cfg.seed, "variant", seedKey, v.family)}
	b := enc.message(d.ProtoReflect(), 0)
	out.bytes = b
	if v.family != "canonical" && enc.applied == 0 && enc.unknownAdded == 0 {
		out.skip = true
		return
	}
	ref, err := t.pkg.UnmarshalRef(t.md, b, true)
	if err != nil {
		out.fail, out.what = "generator", "reference rejects a generated variant: "+err.Error()
		return
	}
	// destination pre-populated with unrelated content (including unknown bytes)
	g := cfg.gen(t, "dest", seedKey)
	other := g.Random(t.md).Msg
	dest, err := build(t, other)
	if err != nil {
		out.fail, out.what = "harness", err.Error()
		return
	}
	bridge.Reflect(dest).SetUnknown(protoreflect.RawFields{0xf8, 0x07, 0x01}) // field 127 varint 1
	fm := dest.(fastMsg)
	var uerr error
	if pi := monitor.Try(func() { uerr = fm.Unmarshal(b) }); pi != nil {
		out.fail, out.what = "panic:"+monitor.PanicClass(pi.Value), "Unmarshal panicked on a valid encoding: "+pi.Value
		return
	}
	if uerr != nil {
		out.fail, out.what = "rejected", "Unmarshal rejected a valid encoding: "+uerr.Error()
		return
	}
	got, err := t.pkg.ToDynamic(dest)
	if err != nil {
		out.fail, out.what = "harness", "ToDynamic: "+err.Error()
		return
	}
	if c07 {
		// C07: the unknown fields found by the reference parse of b must come back byte-for-byte from Marshal
		var b2 []byte
		var merr error
		var sz int
		if pi := monitor.Try(func() { sz = fm.Size(); b2, merr = fm.Marshal() }); pi != nil {
			out.fail, out.what = "marshal-panic:"+monitor.PanicClass(pi.Value), "Marshal after Unmarshal panicked: "+pi.Value
			return
		}
		if merr != nil {
			out.fail, out.what = "marshal-error", "Marshal after Unmarshal failed: "+merr.Error()
			return
		}
		ref2, err := t.pkg.UnmarshalRef(t.md, b2, true)
		if err != nil {
			out.fail, out.what = "remarshal-unparsable", "reference cannot parse Marshal output after Unmarshal: "+err.Error()
			return
		}
		for _, it := range bridge.Diff(ref.ProtoReflect(), ref2.ProtoReflect()) {
			if it.Kind == "unknown-changed" {
				out.items = append(out.items, it)
			}
		}
		if len(out.items) > 0 {
			out.fail = "diff"
			return
		}
		if sz != len(b2) {
			out.fail, out.what = "size-ne-marshal-len", fmt.Sprintf("after Unmarshal of input with unknown fields Size()=%d but Marshal() returned %d bytes", sz, len(b2))
			return
		}
		// "re-emitted by the next Marshal": the caller owns the returned bytes; reusing that buffer (here: inverting it)
		// must not change what the message holds
		keep := append([]byte(nil), b2...)
		for i := range b2 {
			b2[i] ^= 0xFF
		}
		var b3 []byte
		if pi := monitor.Try(func() { b3, merr = fm.Marshal() }); pi != nil || merr != nil {
			out.fail, out.what = "second-marshal-failed", fmt.Sprintf("a second Marshal failed after the caller reused the buffer the first one returned (err=%v)", merr)
			return
		}
		if !bytes.Equal(b3, keep) && !hasBigMap(ref.ProtoReflect()) {
			out.fail, out.what = "second-marshal-differs", "after the caller overwrote the buffer returned by Marshal, the next Marshal of the unchanged message returns other bytes"
		}
		return
	}
	// "equal to the one the reference runtime decodes": the unknown fields the two decoders retain are part of the
	// comparison (Diff compares them per field number; what Marshal does with them afterwards is C07's subject)
	want, gotS := ref, got
	if !bridge.Equal(want, gotS) {
		out.items = bridge.Diff(want.ProtoReflect(), gotS.ProtoReflect())
		if len(out.items) == 0 {
			out.fail, out.what = "bytes-differ-only", "decoded message re-encodes differently although no field differs"
			return
		}
		out.fail = "diff"
		return
	}
	// independence from prior destination contents: decode into a zero destination too
	zero := t.pkg.New(t.md.FullName()).(fastMsg)
	if pi := monitor.Try(func() { uerr = zero.Unmarshal(b) }); pi != nil || uerr != nil {
		out.fail, out.what = "dest-dependent", "Unmarshal into a zero destination fails while it succeeds into a populated one"
		return
	}
	gz, err := t.pkg.ToDynamic(zero)
	if err == nil && !bridge.Equal(gz, got) {
		out.fail, out.what = "dest-dependent", "the decoded message depends on what the destination contained before"
	}
	return
}

func runC0607(cfg *config, res *monitor.Result) {
	c07 := cfg.prop == "C07"
	ncase := 60
	if cfg.thorough() {
		ncase = 400
	}
	classes := map[string]int64{}
	var evals, genErrs int64
	for _, t := range cfg.targets(true) {
		t0 := time.Now()
		if os.Getenv("VERIF_TIMING") != "" {
			defer func(t target) { fmt.Fprintf(os.Stderr, "timing %s %s %v\n", t.pkg.GoPkg, t.md.Name(), time.Since(t0)) }(t)
		}
		g := cfg.gen(t)
		cases := g.Boundary(t.md)
		if len(cases) > 3*ncase && !cfg.thorough() {
			// keep every 2nd boundary case in the quick tier
			var kept = cases[:0:0]
			for i, c := range cases {
				if i%2 == 0 || c.Class == "empty" {
					kept = append(kept, c)
				}
			}
			cases = kept
		}
		for i := 0; i < ncase; i++ {
			cases = append(cases, g.Random(t.md))
		}
		// self-recursive types: a chain far deeper than any generated value (the reference limits nesting at 10000)
		for _, dc := range deepChains(t.md, 120) {
			tv := g.Random(t.md)
			tv.Msg, tv.Class, tv.Field = dc, "deep-chain-120", ""
			cases = append(cases, tv)
		}
		for ci, c := range cases {
			for vi := range variantFamilies {
				v := &variantFamilies[vi]
				if c07 && !v.unknown {
					continue
				}
				seedKey := fmt.Sprint(t.pkg.GoPkg, t.md.FullName(), ci)
				cfg.progress.Set(cfg.prop, t.pkg.GoPkg, string(t.md.FullName()), c.Class, c.Field, v.family)
				o := c06Check(cfg, t, c.Msg, v, seedKey, c07)
				if o.skip {
					continue
				}
				evals++
				switch o.fail {
				case "":
				case "harness":
					res.Inconc(o.what)
				case "generator":
					genErrs++
					if genErrs < 5 {
						res.Note(fmt.Sprintf("variant generator: %s (%s %s %s)", o.what, t.pkg.GoPkg, t.md.FullName(), v.family))
					}
				case "diff":
					seen := map[string]bool{}
					for _, it := range o.items {
						k := it.String()
						if (it.InWKT && (t.pkg.Flavour == "gogo" || it.Kind == "unknown-changed")) || (it.Foreign && it.Kind == "unknown-changed") {
							continue // decoded/encoded by the runtime's own code for its well-known types (protobuf-go re-encodes the keys of unknown fields minimally)
						}
						if seen[k] {
							continue
						}
						seen[k] = true
						budgetKey := sigFlav(t) + "/" + v.family + "/" + k
						if shrinkBudget[budgetKey] >= 2 {
							// the same (flavour, variant, item) was already shrunk and reported twice in this process: count it
							res.Violate(shrinkSig[budgetKey], "", nil)
							continue
						}
						shrinkBudget[budgetKey]++
						min := shrink(c.Msg, k, func(m *dynamicpb.Message) string {
							oo := c06Check(cfg, t, m, v, seedKey, c07)
							for _, x := range oo.items {
								if x.String() == k {
									return k
								}
							}
							return ""
						})
						fam := v.family
						// if the canonical encoding of the shrunk value shows the same item, the variant is not the cause
						if fam != "canonical" && !c07 {
							oc := c06Check(cfg, t, min, &variantFamilies[0], seedKey, c07)
							for _, x := range oc.items {
								if x.String() == k {
									fam = "canonical"
								}
							}
						}
						sig := fmt.Sprintf("%s:%s:%s:%s", cfg.prop, sigFlav(t), fam, k)
						shrinkSig[budgetKey] = sig
						w := witness(t, min, c)
						oo := c06Check(cfg, t, min, v, seedKey, c07)
						w["variant"] = v.family
						w["input_hex"] = monitor.Hex(oo.bytes)
						w["diff_path"] = it.Path
						w["diff_note"] = it.Note
						what := fmt.Sprintf("%s (%s), %s encoding: generated Unmarshal vs reference parse: field %s %s %s", t.md.FullName(), t.pkg.GoPkg, v.family, it.Path, it.Kind, it.Note)
						if c07 {
							what = fmt.Sprintf("%s (%s): unknown fields changed across Unmarshal+Marshal at %s: %s", t.md.FullName(), t.pkg.GoPkg, it.Path, it.Note)
						}
						res.Violate(sig, what, w)
					}
				default:
					budgetKey := sigFlav(t) + "/" + v.family + "/" + o.fail + "/" + shapesKey(c.Msg)
					if shrinkBudget[budgetKey] >= 1 {
						res.Violate(shrinkSig[budgetKey], "", nil)
						continue
					}
					shrinkBudget[budgetKey]++
					min := shrink(c.Msg, o.fail, func(m *dynamicpb.Message) string { return c06Check(cfg, t, m, v, seedKey, c07).fail })
					fam := v.family
					if fam != "canonical" {
						if c06Check(cfg, t, min, &variantFamilies[0], seedKey, c07).fail == o.fail {
							fam = "canonical"
						}
					}
					sig := fmt.Sprintf("%s:%s:%s:%s:%s", cfg.prop, sigFlav(t), fam, o.fail, shapesKey(min))
					shrinkSig[budgetKey] = sig
					w := witness(t, min, c)
					oo := c06Check(cfg, t, min, v, seedKey, c07)
					w["variant"] = v.family
					w["input_hex"] = monitor.Hex(oo.bytes)
					res.Violate(sig, fmt.Sprintf("%s (%s), %s encoding: %s", t.md.FullName(), t.pkg.GoPkg, v.family, o.what), w)
				}
				if v.family != "canonical" {
					fld := c.Field
					if fld == "" {
						fld = c.Class
					}
					classes[t.pkg.GoPkg+"/"+string(t.md.Name())+"/"+v.family+"/"+fld]++
				}
				if res.WantSample() && ci == 3 && vi == 2 {
					res.Sample(map[string]any{"package": t.pkg.GoPkg, "message": string(t.md.FullName()), "variant": v.family, "value": bridge.Text(c.Msg), "encoding_hex": monitor.Hex(o.bytes)})
				}
			}
		}
	}
	res.Eval(evals)
	res.MergeClasses(classes)
	res.Extra("variant_generator_rejected_by_reference", genErrs)
	if genErrs > evals/50+5 {
		res.Inconc(fmt.Sprintf("the reference rejected %d generated variants (harness fault)", genErrs))
	}
}
