package genwl

import (
	"google.golang.org/protobuf/types/dynamicpb"
	"math"
	"sort"

	"google.golang.org/protobuf/reflect/protoreflect"

	"verifharness/monitor"
	"verifharness/refwire"
)

// Legal encoding variants of a value tree (E3): produced with the reference codec only, never by csproto.

type variant struct {
	family string
	// knobs
	order         int  // 0 canonical (by field number), 1 reversed, 2 shuffled
	packFlip      bool // repeated scalars: the opposite of the declared packing
	splitPacked   bool // packed lists split into several runs, mixed with unpacked elements
	emptyRun      bool // with splitPacked: zero-length packed runs (key, length 0) before the elements and as the very last field of the message
	dupSingular   bool // singular scalar preceded by another occurrence with a different value (last wins)
	splitMsg      bool // singular message field split over two occurrences (merge)
	splitEmpty    bool // with splitMsg: cut at the very start or the very end, so that one of the occurrences is empty
	oneofMulti    bool // another member of the oneof before the real one (last wins)
	oneofABA      bool // with oneofMulti, message members: an earlier occurrence of the SAME member, then another member, then the real one
	oneofMsgLoser bool // with oneofMulti: the member that loses is a message member (written empty) where the oneof has one
	oneofABAFull  bool // with oneofABA: the earlier occurrence A' is a different, self-sufficient value of the member type (every required field set)
	mapShape      int  // 0 normal, 1 value-then-key, 2 omit zero key, 3 omit zero value, 4 duplicate key (first with other value), 5 omit both, 6 message value split over two occurrences inside the entry
	explicitZero  bool // implicit-presence fields holding zero are written explicitly
	unknown       bool // unknown fields interleaved at every level
	padded        bool // unknown fields use over-long (non-minimal but valid) varints for key, length prefix and varint value
}

var variantFamilies = []variant{
	{family: "canonical"},
	{family: "reversed", order: 1},
	{family: "shuffled", order: 2},
	{family: "packflip", packFlip: true},
	{family: "splitpacked", splitPacked: true},
	{family: "splitpacked-empty", splitPacked: true, emptyRun: true},
	{family: "dupsingular", dupSingular: true},
	{family: "splitmsg", splitMsg: true},
	{family: "splitmsg-empty", splitMsg: true, splitEmpty: true},
	{family: "splitmsg+unknown", splitMsg: true, unknown: true},
	{family: "splitmsg+reversed", splitMsg: true, order: 1},
	{family: "oneofmulti", oneofMulti: true},
	{family: "oneof-aba", oneofMulti: true, oneofABA: true},
	{family: "oneof-aba-full", oneofMulti: true, oneofABA: true, oneofABAFull: true},
	{family: "oneof-msgloser", oneofMulti: true, oneofMsgLoser: true},
	{family: "mapswap", mapShape: 1},
	{family: "mapomitkey", mapShape: 2},
	{family: "mapomitval", mapShape: 3},
	{family: "mapomitboth", mapShape: 5},
	{family: "mapdup", mapShape: 4},
	{family: "mapsplitval", mapShape: 6},
	{family: "explicitzero", explicitZero: true},
	{family: "unknown", unknown: true},
	{family: "unknown+shuffled", unknown: true, order: 2},
	{family: "unknown-padded", unknown: true, padded: true},
}

type venc struct {
	v *variant
	r *monitor.Rand
	// applied counts how often the variant's knob actually changed the encoding
	applied int
	// unknownAdded counts inserted unknown fields
	unknownAdded int
}

func wireTypeOf(k protoreflect.Kind) int {
	switch k {
	case protoreflect.Fixed32Kind, protoreflect.Sfixed32Kind, protoreflect.FloatKind:
		return refwire.WTFixed32
	case protoreflect.Fixed64Kind, protoreflect.Sfixed64Kind, protoreflect.DoubleKind:
		return refwire.WTFixed64
	case protoreflect.StringKind, protoreflect.BytesKind, protoreflect.MessageKind:
		return refwire.WTLen
	}
	return refwire.WTVarint
}

// scalarPayload appends the value without key.
func (e *venc) scalarPayload(b []byte, fd protoreflect.FieldDescriptor, v protoreflect.Value, depth int) []byte {
	switch fd.Kind() {
	case protoreflect.BoolKind:
		if v.Bool() {
			return append(b, 1)
		}
		return append(b, 0)
	case protoreflect.Int32Kind, protoreflect.Int64Kind:
		return refwire.AppendVarint(b, uint64(v.Int()))
	case protoreflect.EnumKind:
		return refwire.AppendVarint(b, uint64(int64(v.Enum())))
	case protoreflect.Uint32Kind, protoreflect.Uint64Kind:
		return refwire.AppendVarint(b, v.Uint())
	case protoreflect.Sint32Kind:
		return refwire.AppendVarint(b, refwire.ZigZag32(int32(v.Int())))
	case protoreflect.Sint64Kind:
		return refwire.AppendVarint(b, refwire.ZigZag64(v.Int()))
	case protoreflect.Fixed32Kind:
		return refwire.AppendFixed32(b, uint32(v.Uint()))
	case protoreflect.Sfixed32Kind:
		return refwire.AppendFixed32(b, uint32(int32(v.Int())))
	case protoreflect.FloatKind:
		return refwire.AppendFixed32(b, math.Float32bits(float32(v.Float())))
	case protoreflect.Fixed64Kind:
		return refwire.AppendFixed64(b, v.Uint())
	case protoreflect.Sfixed64Kind:
		return refwire.AppendFixed64(b, uint64(v.Int()))
	case protoreflect.DoubleKind:
		return refwire.AppendFixed64(b, math.Float64bits(v.Float()))
	case protoreflect.StringKind:
		return refwire.AppendLen(b, []byte(v.String()))
	case protoreflect.BytesKind:
		return refwire.AppendLen(b, v.Bytes())
	case protoreflect.MessageKind:
		return refwire.AppendLen(b, e.message(v.Message(), depth+1))
	}
	panic("variants: unsupported kind " + fd.Kind().String())
}

func (e *venc) one(fd protoreflect.FieldDescriptor, v protoreflect.Value, depth int) []byte {
	b := refwire.AppendKey(nil, int(fd.Number()), wireTypeOf(fd.Kind()))
	return e.scalarPayload(b, fd, v, depth)
}

// otherValue returns a value of the field's kind different from v (for duplicates that must lose).
func otherValue(fd protoreflect.FieldDescriptor, v protoreflect.Value) (protoreflect.Value, bool) {
	switch fd.Kind() {
	case protoreflect.BoolKind:
		return protoreflect.ValueOfBool(!v.Bool()), true
	case protoreflect.Int32Kind, protoreflect.Sint32Kind, protoreflect.Sfixed32Kind:
		return protoreflect.ValueOfInt32(int32(v.Int()) ^ 0x55), true
	case protoreflect.Int64Kind, protoreflect.Sint64Kind, protoreflect.Sfixed64Kind:
		return protoreflect.ValueOfInt64(v.Int() ^ 0x5555), true
	case protoreflect.Uint32Kind, protoreflect.Fixed32Kind:
		return protoreflect.ValueOfUint32(uint32(v.Uint()) ^ 0x55), true
	case protoreflect.Uint64Kind, protoreflect.Fixed64Kind:
		return protoreflect.ValueOfUint64(v.Uint() ^ 0x5555), true
	case protoreflect.FloatKind:
		return protoreflect.ValueOfFloat32(float32(v.Float()) + 1.5), true
	case protoreflect.DoubleKind:
		return protoreflect.ValueOfFloat64(v.Float() + 1.5), true
	case protoreflect.StringKind:
		return protoreflect.ValueOfString(v.String() + "-loser"), true
	case protoreflect.BytesKind:
		return protoreflect.ValueOfBytes(append(append([]byte{}, v.Bytes()...), 0xEE)), true
	case protoreflect.EnumKind:
		vals := fd.Enum().Values()
		for i := 0; i < vals.Len(); i++ {
			if vals.Get(i).Number() != v.Enum() {
				return protoreflect.ValueOfEnum(vals.Get(i).Number()), true
			}
		}
	}
	return v, false
}

func isZeroVal(fd protoreflect.FieldDescriptor, v protoreflect.Value) bool {
	switch fd.Kind() {
	case protoreflect.BoolKind:
		return !v.Bool()
	case protoreflect.StringKind:
		return v.String() == ""
	case protoreflect.BytesKind:
		return len(v.Bytes()) == 0
	case protoreflect.FloatKind, protoreflect.DoubleKind:
		return math.Float64bits(v.Float()) == 0
	case protoreflect.EnumKind:
		return v.Enum() == 0
	case protoreflect.MessageKind:
		return false
	case protoreflect.Int32Kind, protoreflect.Sint32Kind, protoreflect.Sfixed32Kind, protoreflect.Int64Kind, protoreflect.Sint64Kind, protoreflect.Sfixed64Kind:
		return v.Int() == 0
	}
	return v.Uint() == 0
}

func packable(fd protoreflect.FieldDescriptor) bool {
	switch fd.Kind() {
	case protoreflect.StringKind, protoreflect.BytesKind, protoreflect.MessageKind, protoreflect.GroupKind:
		return false
	}
	return true
}

// message encodes one message; the returned chunks are complete field occurrences.
func (e *venc) message(m protoreflect.Message, depth int) []byte {
	var chunks, trailing [][]byte
	md := m.Descriptor()
	var fds []protoreflect.FieldDescriptor
	m.Range(func(fd protoreflect.FieldDescriptor, _ protoreflect.Value) bool { fds = append(fds, fd); return true })
	sort.Slice(fds, func(i, j int) bool { return fds[i].Number() < fds[j].Number() })
	for _, fd := range fds {
		v := m.Get(fd)
		switch {
		case fd.IsMap():
			kfd, vfd := fd.MapKey(), fd.MapValue()
			var keys []protoreflect.MapKey
			v.Map().Range(func(k protoreflect.MapKey, _ protoreflect.Value) bool { keys = append(keys, k); return true })
			sort.Slice(keys, func(i, j int) bool { return keys[i].String() < keys[j].String() })
			for _, k := range keys {
				mv := v.Map().Get(k)
				entry := func(kv protoreflect.Value, vv protoreflect.Value, shape int) []byte {
					kb := e.one(kfd, kv, depth)
					vb := e.one(vfd, vv, depth)
					var p []byte
					valZero := (vfd.Kind() != protoreflect.MessageKind && isZeroVal(vfd, vv)) || (vfd.Kind() == protoreflect.MessageKind && len(e.message(vv.Message(), depth+1)) == 0)
					switch {
					case shape == 5 && isZeroVal(kfd, kv) && valZero:
						// zero key mapped to a zero value: a writer may omit both (zero-length entry)
						e.applied++
					case shape == 5 && isZeroVal(kfd, kv):
						p = append(p, vb...)
						e.applied++
					case shape == 5 && valZero:
						p = append(p, kb...)
						e.applied++
					case shape == 6 && vfd.Kind() == protoreflect.MessageKind && splitOccurrences(vb) != nil:
						// the value field twice inside the entry, each occurrence carrying a part of the message; key in between
						occ := splitOccurrences(vb)
						p = append(append(append(p, occ[0]...), kb...), occ[1]...)
						e.applied++
					case shape == 1:
						p = append(append(p, vb...), kb...)
						e.applied++
					case shape == 2 && isZeroVal(kfd, kv):
						p = append(p, vb...)
						e.applied++
					case shape == 3 && vfd.Kind() != protoreflect.MessageKind && isZeroVal(vfd, vv):
						p = append(p, kb...)
						e.applied++
					case shape == 3 && vfd.Kind() == protoreflect.MessageKind && len(e.message(vv.Message(), depth+1)) == 0:
						p = append(p, kb...)
						e.applied++
					default:
						p = append(append(p, kb...), vb...)
					}
					return refwire.AppendLen(refwire.AppendKey(nil, int(fd.Number()), refwire.WTLen), p)
				}
				if e.v.mapShape == 4 && vfd.Kind() != protoreflect.MessageKind {
					if ov, ok := otherValue(vfd, mv); ok {
						chunks = append(chunks, entry(k.Value(), ov, 0))
						e.applied++
					}
				}
				chunks = append(chunks, entry(k.Value(), mv, e.v.mapShape))
			}
		case fd.IsList():
			l := v.List()
			packed := fd.IsPacked()
			if e.v.packFlip && packable(fd) {
				packed = !packed
				e.applied++
			}
			if packable(fd) && e.v.emptyRun && l.Len() >= 1 {
				// a packed occurrence without elements adds nothing; one goes in front of the elements, one to the very end
				// of the message (where nothing follows it in the buffer)
				empty := refwire.AppendLen(refwire.AppendKey(nil, int(fd.Number()), refwire.WTLen), nil)
				chunks = append(chunks, empty)
				trailing = append(trailing, empty)
				e.applied++
			}
			switch {
			case packable(fd) && e.v.splitPacked && l.Len() >= 2:
				// runs of random length, some elements unpacked
				e.applied++
				i := 0
				for i < l.Len() {
					n := 1 + e.r.Intn(3)
					if i+n > l.Len() {
						n = l.Len() - i
					}
					if e.r.Chance(1, 3) {
						for j := i; j < i+n; j++ {
							chunks = append(chunks, e.one(fd, l.Get(j), depth))
						}
					} else {
						var p []byte
						for j := i; j < i+n; j++ {
							p = e.scalarPayload(p, fd, l.Get(j), depth)
						}
						chunks = append(chunks, refwire.AppendLen(refwire.AppendKey(nil, int(fd.Number()), refwire.WTLen), p))
					}
					i += n
				}
			case packed && packable(fd):
				var p []byte
				for i := 0; i < l.Len(); i++ {
					p = e.scalarPayload(p, fd, l.Get(i), depth)
				}
				if l.Len() > 0 {
					chunks = append(chunks, refwire.AppendLen(refwire.AppendKey(nil, int(fd.Number()), refwire.WTLen), p))
				}
			default:
				// all elements of one list stay in order and adjacent as one chunk group; shuffling happens between fields
				var g []byte
				for i := 0; i < l.Len(); i++ {
					g = append(g, e.one(fd, l.Get(i), depth)...)
				}
				if len(g) > 0 {
					chunks = append(chunks, g)
				}
			}
		case fd.Kind() == protoreflect.MessageKind:
			full := e.message(v.Message(), depth+1)
			if e.v.splitMsg {
				// split the sub-message's own field occurrences into two occurrences of the parent field
				fs, err := refwire.Walk(full)
				if e.v.splitEmpty && err == nil && len(full) > 0 {
					// an empty occurrence before, after, or before and after the complete one (also three occurrences)
					key := refwire.AppendKey(nil, int(fd.Number()), refwire.WTLen)
					emptyOcc := refwire.AppendLen(append([]byte(nil), key...), nil)
					fullOcc := refwire.AppendLen(append([]byte(nil), key...), full)
					switch e.r.Intn(3) {
					case 0:
						chunks = append(chunks, append(fullOcc, emptyOcc...))
					case 1:
						chunks = append(chunks, append(emptyOcc, fullOcc...))
					default:
						chunks = append(chunks, append(append(append([]byte(nil), emptyOcc...), fullOcc...), emptyOcc...))
					}
					e.applied++
					continue
				}
				if !e.v.splitEmpty && err == nil && len(fs) >= 2 {
					cut := fs[len(fs)/2].Start
					chunks = append(chunks,
						refwire.AppendLen(refwire.AppendKey(nil, int(fd.Number()), refwire.WTLen), full[:cut]),
						refwire.AppendLen(refwire.AppendKey(nil, int(fd.Number()), refwire.WTLen), full[cut:]))
					e.applied++
					continue
				}
			}
			if od := fd.ContainingOneof(); od != nil && !od.IsSynthetic() && e.v.oneofMulti {
				if c := e.oneofLoser(m, fd, depth); c != nil {
					real := refwire.AppendLen(refwire.AppendKey(nil, int(fd.Number()), refwire.WTLen), full)
					if e.v.oneofABA {
						// A' B A: the earlier A' (which carries a field the real value does not have) is wiped out by B, the
						// final value is A alone - nothing of A' may be merged into it
						extra := refwire.AppendVarint(refwire.AppendKey(nil, 536870001, refwire.WTVarint), 77)
						firstBody := append(append([]byte(nil), full...), extra...)
						if e.v.oneofABAFull {
							firstBody = append(e.message(minimalComplete(fd.Message(), 0).ProtoReflect(), depth+1), extra...)
						}
						first := refwire.AppendLen(refwire.AppendKey(nil, int(fd.Number()), refwire.WTLen), firstBody)
						chunks = append(chunks, append(append(first, c...), real...))
					} else {
						chunks = append(chunks, append(c, real...))
					}
					e.applied++
					continue
				}
			}
			chunks = append(chunks, refwire.AppendLen(refwire.AppendKey(nil, int(fd.Number()), refwire.WTLen), full))
		default:
			c := e.one(fd, v, depth)
			if od := fd.ContainingOneof(); od != nil && !od.IsSynthetic() {
				if e.v.oneofMulti {
					if l := e.oneofLoser(m, fd, depth); l != nil {
						c = append(l, c...)
						e.applied++
					}
				}
			} else if e.v.dupSingular {
				if ov, ok := otherValue(fd, v); ok {
					c = append(e.one(fd, ov, depth), c...)
					e.applied++
				}
			}
			chunks = append(chunks, c)
		}
	}
	if e.v.explicitZero {
		// implicit-presence scalar fields that are unset: write their zero value explicitly
		for i := 0; i < md.Fields().Len(); i++ {
			fd := md.Fields().Get(i)
			if fd.HasPresence() || fd.IsList() || fd.IsMap() || m.Has(fd) {
				continue
			}
			chunks = append(chunks, e.one(fd, fd.Default(), depth))
			e.applied++
		}
	}
	if e.v.unknown {
		n := 1 + e.r.Intn(3)
		for i := 0; i < n; i++ {
			chunks = append(chunks, e.unknownField(md))
			e.unknownAdded++
		}
	}
	switch e.v.order {
	case 1:
		for i, j := 0, len(chunks)-1; i < j; i, j = i+1, j-1 {
			chunks[i], chunks[j] = chunks[j], chunks[i]
		}
		if len(chunks) > 1 {
			e.applied++
		}
	case 2:
		for i := len(chunks) - 1; i > 0; i-- {
			j := e.r.Intn(i + 1)
			chunks[i], chunks[j] = chunks[j], chunks[i]
		}
		if len(chunks) > 1 {
			e.applied++
		}
	default:
		if e.v.unknown && len(chunks) > 1 {
			// unknown fields at random positions among the known ones (known order kept)
			k := len(chunks) - 1
			j := e.r.Intn(len(chunks))
			chunks[k], chunks[j] = chunks[j], chunks[k]
		}
	}
	var out []byte
	for _, c := range chunks {
		out = append(out, c...)
	}
	for _, c := range trailing {
		out = append(out, c...)
	}
	return out
}

// oneofLoser encodes a different member of fd's oneof (it must lose against fd which follows it).
func (e *venc) oneofLoser(m protoreflect.Message, fd protoreflect.FieldDescriptor, depth int) []byte {
	od := fd.ContainingOneof()
	if e.v.oneofMsgLoser {
		for i := 0; i < od.Fields().Len(); i++ {
			if o := od.Fields().Get(i); o.Number() != fd.Number() && o.Kind() == protoreflect.MessageKind {
				// an empty value of a message member: whatever it lacks is of no concern, it is not the final value
				return refwire.AppendLen(refwire.AppendKey(nil, int(o.Number()), refwire.WTLen), nil)
			}
		}
		return nil
	}
	for i := 0; i < od.Fields().Len(); i++ {
		o := od.Fields().Get(i)
		if o.Number() == fd.Number() || o.Kind() == protoreflect.MessageKind {
			continue
		}
		v := o.Default()
		if ov, ok := otherValue(o, v); ok {
			v = ov
		}
		return e.one(o, v, depth)
	}
	return nil
}

// unknownField makes a field whose number is not in the schema (nor a declared extension number).
func (e *venc) unknownField(md protoreflect.MessageDescriptor) []byte {
	var num int
	for {
		switch e.r.Intn(6) {
		case 5:
			// the number of an extension that is declared in the same file - for ANOTHER message: here it is just a number
			if xs := fileExtensionNumbers(md.ParentFile()); len(xs) > 0 {
				num = xs[e.r.Intn(len(xs))]
			} else {
				num = 100
			}
		case 0:
			num = 1 + e.r.Intn(60)
		case 1:
			num = 1<<26 + e.r.Intn(1<<20)
		case 2:
			num = 1<<29 - 1 - e.r.Intn(50)
		case 3:
			num = 2000 + e.r.Intn(100)
		default:
			// just below / above a declared number
			if md.Fields().Len() > 0 {
				num = int(md.Fields().Get(e.r.Intn(md.Fields().Len())).Number()) + 1 - 2*e.r.Intn(2)
			} else {
				num = 3
			}
		}
		if num < 1 || num > refwire.MaxFieldNumber || (num >= 19000 && num <= 19999) {
			continue
		}
		if md.Fields().ByNumber(protoreflect.FieldNumber(num)) != nil {
			continue
		}
		if md.ExtensionRanges().Has(protoreflect.FieldNumber(num)) {
			continue // could collide with a declared extension; stay clear of the ranges
		}
		break
	}
	wt := []int{refwire.WTVarint, refwire.WTFixed64, refwire.WTLen, refwire.WTFixed32}[e.r.Intn(4)]
	b := refwire.AppendKey(nil, num, wt)
	if e.v.padded {
		// every varint of the field may carry redundant continuation bytes: 0x98 0x01 == 0x98 0x81 0x00
		b = padVarint(b, 1+e.r.Intn(2))
		switch wt {
		case refwire.WTVarint:
			v := refwire.AppendVarint(nil, e.r.Uint64()>>uint(8+e.r.Intn(56)))
			if e.r.Bool() {
				v = padVarint(v, 1+e.r.Intn(2))
			}
			return append(b, v...)
		case refwire.WTLen:
			n := e.r.Intn(12)
			if e.r.Chance(1, 5) {
				n = 0
			}
			l := refwire.AppendVarint(nil, uint64(n))
			if e.r.Bool() {
				l = padVarint(l, 1+e.r.Intn(2))
			}
			return append(append(b, l...), e.r.Bytes(n)...)
		}
	}
	switch wt {
	case refwire.WTVarint:
		return refwire.AppendVarint(b, e.r.Uint64()>>uint(e.r.Intn(64)))
	case refwire.WTFixed64:
		return refwire.AppendFixed64(b, e.r.Uint64())
	case refwire.WTFixed32:
		return refwire.AppendFixed32(b, uint32(e.r.Uint64()))
	}
	n := e.r.Intn(12)
	if e.r.Chance(1, 400) {
		n = 70000
	}
	if e.r.Chance(1, 6) {
		n = 0
	}
	return refwire.AppendLen(b, e.r.Bytes(n))
}

// padVarint appends extra redundant bytes to the varint that ends b (which must be shorter than 10-extra bytes).
func padVarint(b []byte, extra int) []byte {
	b[len(b)-1] |= 0x80
	for i := 1; i < extra; i++ {
		b = append(b, 0x80)
	}
	return append(b, 0x00)
}

// minimalComplete returns a value of md in which every required field (recursively) is set, to its default.
func minimalComplete(md protoreflect.MessageDescriptor, depth int) *dynamicpb.Message {
	d := dynamicpb.NewMessage(md)
	if depth > 6 {
		return d
	}
	for i := 0; i < md.Fields().Len(); i++ {
		fd := md.Fields().Get(i)
		if fd.Cardinality() != protoreflect.Required {
			continue
		}
		if fd.Kind() == protoreflect.MessageKind || fd.Kind() == protoreflect.GroupKind {
			d.Set(fd, protoreflect.ValueOfMessage(minimalComplete(fd.Message(), depth+1).ProtoReflect()))
		} else {
			d.Set(fd, fd.Default())
		}
	}
	return d
}

// splitOccurrences takes the encoding of one length-delimited field holding a message with at least two fields and
// returns two occurrences of the same field whose payloads concatenate to the original payload (nil otherwise).
func splitOccurrences(field []byte) [][]byte {
	fs, err := refwire.Walk(field)
	if err != nil || len(fs) != 1 || fs[0].WT != refwire.WTLen {
		return nil
	}
	inner, err := refwire.Walk(fs[0].Payload)
	if err != nil || len(inner) < 2 {
		return nil
	}
	cut := inner[len(inner)/2].Start
	return [][]byte{
		refwire.AppendLen(refwire.AppendKey(nil, fs[0].Num, refwire.WTLen), fs[0].Payload[:cut]),
		refwire.AppendLen(refwire.AppendKey(nil, fs[0].Num, refwire.WTLen), fs[0].Payload[cut:]),
	}
}

// fileExtensionNumbers lists the field numbers of all extensions declared in fd (file level and nested).
func fileExtensionNumbers(fd protoreflect.FileDescriptor) []int {
	var out []int
	add := func(xs protoreflect.ExtensionDescriptors) {
		for i := 0; i < xs.Len(); i++ {
			out = append(out, int(xs.Get(i).Number()))
		}
	}
	add(fd.Extensions())
	var walk func(ms protoreflect.MessageDescriptors)
	walk = func(ms protoreflect.MessageDescriptors) {
		for i := 0; i < ms.Len(); i++ {
			add(ms.Get(i).Extensions())
			walk(ms.Get(i).Messages())
		}
	}
	walk(fd.Messages())
	sort.Ints(out)
	return out
}
