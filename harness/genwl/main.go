// Package genwl is the workload library linked with the generated schema corpus (wl-gen): C04-C12,
// C17-C19 and the generated half of C10.
package genwl

import (
	"flag"
	"fmt"
	"os"
	"reflect"
	"runtime/pprof"
	"sort"
	"strconv"
	"strings"
	"time"

	"google.golang.org/protobuf/proto"
	"google.golang.org/protobuf/reflect/protoreflect"
	"google.golang.org/protobuf/types/dynamicpb"

	"verifharness/bridge"
	"verifharness/monitor"
	"verifharness/registry"
	"verifharness/valgen"
)

type config struct {
	prop     string
	tier     string
	seed     int64
	shard    int
	nshard   int
	out      string
	progress *monitor.Progress
	replay   string
	onlyPkg  string // replay: restrict targets to this package ...
	onlyMsg  string // ... and message type
	pkgs     []*bridge.Pkg
}

func (c *config) thorough() bool  { return c.tier == "thorough" }
func (c *config) mine(i int) bool { return i%c.nshard == c.shard }

// Main is the entry point of the generated wl-gen binary.
func Main() {
	var (
		prop   = flag.String("prop", "", "property id")
		tier   = flag.String("tier", "quick", "quick|thorough")
		seed   = flag.Int64("seed", 1, "VERIF_SEED")
		shard  = flag.String("shard", "0/1", "i/n")
		out    = flag.String("out", "", "result file")
		prog   = flag.String("progress", "", "progress (current case) file")
		replay = flag.String("replay", "", "replay witness file")
		list   = flag.Bool("list", false, "list linked packages")
	)
	flag.Parse()
	cfg := &config{prop: *prop, tier: *tier, seed: *seed, out: *out, replay: *replay}
	parts := strings.Split(*shard, "/")
	cfg.shard, _ = strconv.Atoi(parts[0])
	if len(parts) > 1 {
		cfg.nshard, _ = strconv.Atoi(parts[1])
	}
	if cfg.nshard < 1 {
		cfg.nshard = 1
	}
	p, err := monitor.OpenProgress(*prog)
	if err != nil {
		fmt.Fprintln(os.Stderr, "progress:", err)
		os.Exit(3)
	}
	cfg.progress = p
	res := monitor.New(cfg.prop, cfg.tier, cfg.seed, *shard)
	sort.Slice(registry.Packages, func(i, j int) bool { return registry.Packages[i].GoPkg < registry.Packages[j].GoPkg })
	for _, rp := range registry.Packages {
		bp, err := bridge.Load(rp)
		if err != nil {
			res.Inconc("cannot load descriptors of " + rp.GoPkg + ": " + err.Error())
			continue
		}
		cfg.pkgs = append(cfg.pkgs, bp)
	}
	if *list {
		for _, p := range cfg.pkgs {
			fmt.Println(p.GoPkg, len(p.Msgs), "messages")
		}
		return
	}
	if pf := os.Getenv("VERIF_CPUPROFILE"); pf != "" {
		f, err := os.Create(pf)
		if err == nil {
			_ = pprof.StartCPUProfile(f)
			defer pprof.StopCPUProfile()
		}
	}
	start := time.Now()
	dispatch := func() {
		switch cfg.prop {
		case "C04", "C05":
			runC0405(cfg, res)
		case "C06", "C07":
			runC0607(cfg, res)
		case "C08":
			runC08(cfg, res)
		case "C09":
			runC09(cfg, res)
		case "C10":
			runC10(cfg, res)
		case "C11":
			runC11(cfg, res)
		case "C12":
			runC12(cfg, res)
		case "C17":
			runC17(cfg, res)
		case "C18":
			runC18(cfg, res)
		case "C19":
			runC19(cfg, res)
		default:
			fmt.Fprintln(os.Stderr, "unknown property", cfg.prop)
			os.Exit(3)
		}
	}
	if cfg.replay != "" {
		runReplay(cfg, res, dispatch)
	} else {
		dispatch()
	}
	res.Extra("wall_ms", time.Since(start).Milliseconds())
	res.Extra("packages_linked", int64(len(cfg.pkgs)))
	cfg.progress.Set("done")
	if cfg.out != "" {
		if err := res.Write(cfg.out); err != nil {
			fmt.Fprintln(os.Stderr, "write result:", err)
			os.Exit(3)
		}
	}
}

// target is one (package, message type) pair.
type target struct {
	pkg *bridge.Pkg
	md  protoreflect.MessageDescriptor
	idx int
}

// targets lists the message types of fast-marshal (or plain) packages assigned to this shard.
func (c *config) targets(fast bool) []target {
	var out []target
	i := 0
	for _, p := range c.pkgs {
		if p.Fast != fast {
			continue
		}
		if p.Group == "import-dep-enum" && p.Flavour == "gogo" {
			// protobuf-go's legacy wrapper, which the bridge uses to reflect on gogo structs, cannot load a gogo message
			// with an enum field whose type comes from another gogo package (the dependency is only in gogo's
			// registry; the placeholder enum has no values). Such packages are exercised by C16 (compile) and by C18's
			// reflection-free case only.
			continue
		}
		for _, md := range p.Msgs {
			i++
			if fast {
				if _, ok := p.New(md.FullName()).(fastMsg); !ok {
					continue // no generated methods for this type (C16 reports why)
				}
			}
			if c.onlyPkg != "" && p.GoPkg != c.onlyPkg || c.onlyMsg != "" && string(md.FullName()) != c.onlyMsg {
				continue
			}
			if c.mine(i) {
				out = append(out, target{pkg: p, md: md, idx: i})
			}
		}
	}
	return out
}

func (c *config) gen(t target, keys ...any) *valgen.Gen {
	ks := append([]any{c.prop, t.pkg.GoPkg, string(t.md.FullName())}, keys...)
	return &valgen.Gen{R: monitor.NewRand(c.seed, ks...), ExtsFor: func(fn protoreflect.FullName) []protoreflect.ExtensionType { return t.pkg.Exts[fn] }}
}

// build creates a fresh generated struct holding the value of d.
func build(t target, d *dynamicpb.Message) (any, error) {
	g := t.pkg.New(d.Descriptor().FullName())
	var extRaw []byte
	if extInUnknown {
		d, extRaw = splitExtensions(d)
	}
	if err := t.pkg.FromDynamic(d, g); err != nil {
		return nil, err
	}
	if len(extRaw) > 0 {
		r := bridge.Reflect(g)
		r.SetUnknown(append(append(protoreflect.RawFields(nil), r.GetUnknown()...), extRaw...))
		extInUnknownPoked++
	}
	if emptyNonNil {
		pokeEmpty(reflect.ValueOf(g), d.Descriptor(), 0)
	}
	if nilElems {
		nilElemsPoked += pokeNilElems(reflect.ValueOf(g), d.Descriptor(), 0)
	}
	if invalidUTF8 {
		invalidUTF8Poked += pokeInvalidUTF8(reflect.ValueOf(g), 0)
	}
	return g, nil
}

// shrink clears populated top-level fields (and halves lists) of d one at a time while failing(d) keeps
// returning the same non-empty failure key; returns the minimal witness found.
func shrink(d *dynamicpb.Message, key string, failing func(*dynamicpb.Message) string) *dynamicpb.Message {
	cur := d
	for round := 0; round < 4; round++ {
		changed := false
		var fds []protoreflect.FieldDescriptor
		cur.Range(func(fd protoreflect.FieldDescriptor, _ protoreflect.Value) bool { fds = append(fds, fd); return true })
		sort.Slice(fds, func(i, j int) bool { return fds[i].Number() < fds[j].Number() })
		for _, fd := range fds {
			if fd.Cardinality() == protoreflect.Required {
				continue
			}
			cand := cloneDyn(cur)
			cand.Clear(fd)
			if failing(cand) == key {
				cur = cand
				changed = true
				continue
			}
			if fd.IsList() && cur.Get(fd).List().Len() > 1 {
				cand = cloneDyn(cur)
				l := cand.Mutable(fd).List()
				l.Truncate(l.Len() / 2)
				if failing(cand) == key {
					cur = cand
					changed = true
				}
			}
		}
		if !changed {
			break
		}
	}
	return cur
}

func cloneDyn(d *dynamicpb.Message) *dynamicpb.Message {
	return proto.Clone(d).(*dynamicpb.Message)
}

// sigFlav is the flavour component of violation signatures: the runtime flavour, plus "+ext" when the
// message type has proto2 extensions declared for it in its unit (the generated extension snippets are a
// separate code path that was defective for most kinds until the fix recorded in known_findings.jsonl).
func sigFlav(t target) string {
	if len(t.pkg.Exts[t.md.FullName()]) > 0 {
		return t.pkg.Flavour + "+ext"
	}
	return t.pkg.Flavour
}
