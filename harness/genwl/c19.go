package genwl

import (
	"bytes"
	"errors"
	"fmt"

	"github.com/CrowdStrike/csproto"
	gogodesc "github.com/gogo/protobuf/protoc-gen-gogo/descriptor"
	gogotypes "github.com/gogo/protobuf/types"
	"google.golang.org/protobuf/proto"
	"google.golang.org/protobuf/types/descriptorpb"
	"google.golang.org/protobuf/types/known/structpb"
	"google.golang.org/protobuf/types/known/wrapperspb"

	"verifharness/bridge"
	"verifharness/monitor"
	"verifharness/refwire"
)

// C19: nested-message bridging in the hand-written codec is exact.

var errStub = errors.New("stub failure")

// stubTo: hand-written MarshalTo + Size (+Unmarshal)
type stubTo struct {
	payload []byte
	fail    bool
	got     []byte
	calls   int
}

func (s *stubTo) Size() int { return len(s.payload) }
func (s *stubTo) MarshalTo(dest []byte) error {
	if s.fail {
		return errStub
	}
	copy(dest, s.payload)
	return nil
}
func (s *stubTo) Unmarshal(p []byte) error {
	s.calls++
	if s.fail {
		return errStub
	}
	s.got = append([]byte(nil), p...)
	return nil
}

// stubMarshalSize: Marshal + Size, no MarshalTo
type stubMarshalSize struct {
	payload []byte
	fail    bool
}

func (s *stubMarshalSize) Size() int { return len(s.payload) }
func (s *stubMarshalSize) Marshal() ([]byte, error) {
	if s.fail {
		return nil, errStub
	}
	return append([]byte(nil), s.payload...), nil
}

// stubMarshalOnly: Marshal only (no Size, no MarshalTo)
type stubMarshalOnly struct {
	payload []byte
	fail    bool
}

func (s *stubMarshalOnly) Marshal() ([]byte, error) {
	if s.fail {
		return nil, errStub
	}
	return append([]byte(nil), s.payload...), nil
}

func runC19(cfg *config, res *monitor.Result) {
	nvals := 10
	if cfg.thorough() {
		nvals = 100
	}
	classes := map[string]int64{}
	var evals int64
	// one nested-message case
	type nestedCase struct {
		kind string
		msg  any
		// want: bytes csproto.Marshal returns for the message (nil when marshal is expected to fail)
		wantErr error
		exact   bool // byte-exact comparison possible (no multi-entry maps)
		desc    map[string]any
		// ref, when set, is another object with the same contents: the expected bytes are taken from it, so that msg
		// itself has never been sized or marshaled when EncodeNested sees it (no size cache of the owning runtime is warm)
		ref any
		// failOnly: a case built to make the nested message's own Marshal fail; when that runtime accepts the value after all,
		// there is nothing to compare here (the generic part needs a corpus target)
		failOnly bool
	}
	check := func(nc nestedCase, tag int, position string) {
		evals++
		viol := func(failure, what string) {
			sig := fmt.Sprintf("C19:%s:%s:%s", nc.kind, failure, position)
			w := map[string]any{"nested_kind": nc.kind, "tag": tag, "position": position}
			for k, v := range nc.desc {
				if k != "target" && k != "other" {
					w[k] = v
				}
			}
			res.Violate(sig, fmt.Sprintf("EncodeNested/DecodeNested with a %s nested message (%s field): %s", nc.kind, position, what), w)
		}
		var B []byte
		var berr error
		if st, ok := nc.msg.(*stubTo); ok {
			// MarshalTo+Size only: csproto.Marshal does not support such a type, the payload is known
			B = st.payload
		} else if pi := monitor.Try(func() {
			if nc.ref != nil {
				B, berr = csproto.Marshal(nc.ref)
			} else {
				B, berr = csproto.Marshal(nc.msg)
			}
		}); pi != nil {
			return // content-level defect of the nested type, not the bridge's
		}
		if nc.wantErr == nil && berr != nil {
			// the nested message's own Marshal fails (invalid UTF-8, unset required field ...): the same call made through
			// EncodeNested must fail as well - an error of the nested message propagates, nothing is reported as written
			n := 0
			monitor.Try(func() { n = csproto.Size(nc.msg) })
			buf := make([]byte, csproto.SizeOfTagKey(tag)+csproto.SizeOfVarint(uint64(n))+n+len(B)+32)
			var e error
			if pi := monitor.Try(func() { e = csproto.NewEncoder(buf).EncodeNested(tag, nc.msg) }); pi == nil && e == nil {
				viol("encode-error-swallowed", fmt.Sprintf("csproto.Marshal of the nested message fails (%v) but EncodeNested returned nil", berr))
			}
			classes[nc.kind+"/"+position+"/marshal-fails"]++
			return
		}
		if nc.failOnly {
			classes[nc.kind+"/"+position+"/runtime-accepts"]++
			return
		}
		// layout: [scalar 1] nested [scalar 2] depending on position
		pre := position == "middle" || position == "last"
		post := position == "middle" || position == "first"
		size := 0
		if pre {
			size += csproto.SizeOfTagKey(1) + csproto.SizeOfVarint(300)
		}
		nestedSize := csproto.SizeOfTagKey(tag) + csproto.SizeOfVarint(uint64(len(B))) + len(B)
		if nc.wantErr != nil {
			// the nested marshaler is going to fail: give the encoder the room its size report asks for
			n := csproto.Size(nc.msg)
			nestedSize = csproto.SizeOfTagKey(tag) + csproto.SizeOfVarint(uint64(n)) + n
		}
		size += nestedSize
		if post {
			size += csproto.SizeOfTagKey(3) + 4
		}
		arena := make([]byte, size+2*frame)
		for i := range arena {
			arena[i] = 0xC3
		}
		buf := arena[frame : frame+size : frame+size]
		for i := range buf {
			buf[i] = 0xAA
		}
		enc := csproto.NewEncoder(buf)
		var encErr error
		var before, after int
		pi := monitor.Try(func() {
			if pre {
				enc.EncodeUInt32(1, 300)
			}
			before = enc.VerifOffset()
			encErr = enc.EncodeNested(tag, nc.msg)
			after = enc.VerifOffset()
			if post && encErr == nil {
				enc.EncodeFixed32(3, 0xDEADBEEF)
			}
		})
		if pi != nil {
			viol("encode-panic", "EncodeNested panicked with a buffer sized from the size helpers and csproto.Size/Marshal: "+pi.Value)
			return
		}
		for i := 0; i < frame; i++ {
			if arena[i] != 0xC3 || arena[frame+size+i] != 0xC3 {
				viol("encode-overrun", "EncodeNested wrote outside the buffer")
				return
			}
		}
		if nc.wantErr != nil {
			if !errors.Is(encErr, nc.wantErr) {
				viol("encode-error-not-propagated", fmt.Sprintf("nested marshal error not returned by EncodeNested (got %v)", encErr))
			}
			classes["encode-error/"+nc.kind+"/"+position]++
			return
		}
		if encErr != nil {
			viol("encode-error", "EncodeNested failed: "+encErr.Error())
			return
		}
		want := refwire.AppendLen(refwire.AppendKey(nil, tag, refwire.WTLen), B)
		if after-before != len(want) {
			viol("cursor-advance", fmt.Sprintf("write cursor advanced by %d, key+length+payload is %d bytes", after-before, len(want)))
		}
		if before >= 0 && before+len(want) <= len(buf) {
			got := buf[before : before+len(want)]
			if nc.exact && !bytes.Equal(got, want) {
				viol("bytes", fmt.Sprintf("EncodeNested wrote %x, expected key|len|csproto.Marshal = %x", clipBytes(got), clipBytes(want)))
			} else if !nc.exact && !bytes.Equal(got[:len(want)-len(B)], want[:len(want)-len(B)]) {
				viol("bytes", "EncodeNested wrote a wrong key or length prefix")
			}
		}
		if after != before+len(want) {
			return
		}
		// ---- decode the whole buffer back with the reference walker and DecodeNested
		fs, err := refwire.Walk(buf)
		if err != nil {
			viol("buffer-not-wellformed", "the encoded buffer is not a well-formed field sequence: "+err.Error())
			return
		}
		dec := csproto.NewDecoder(buf)
		for _, f := range fs {
			t, wt, err := dec.DecodeTag()
			if err != nil || t != f.Num || int(wt) != f.WT {
				viol("decode-tag", "DecodeTag disagrees with the reference walker")
				return
			}
			if f.Num != tag || f.WT != refwire.WTLen {
				_, _ = dec.Skip(t, wt)
				continue
			}
			cur := dec.Offset()
			{
				// a destination of an unsupported type is refused whatever the payload is (also an empty one)
				d4 := csproto.NewDecoder(buf)
				_, _ = d4.Seek(int64(cur), 0)
				var uerr error
				if pi := monitor.Try(func() { uerr = d4.DecodeNested(&notAMessage{A: 1}) }); pi != nil || uerr == nil {
					viol("decode-unsupported-target-accepted", fmt.Sprintf("DecodeNested into a value that is no message returned err=%v (panic=%v)", uerr, pi != nil))
				}
			}
			switch m := nc.msg.(type) {
			case *stubTo:
				dst := &stubTo{}
				if err := dec.DecodeNested(dst); err != nil || !bytes.Equal(dst.got, m.payload) || dst.calls != 1 {
					viol("decode-value", fmt.Sprintf("DecodeNested into a stub: err=%v, payload equal=%v, calls=%d", err, bytes.Equal(dst.got, m.payload), dst.calls))
				}
				// failing nested decoder: same error, cursor unchanged
				d2 := csproto.NewDecoder(buf)
				_, _ = d2.Seek(int64(cur), 0)
				bad := &stubTo{fail: true}
				if err := d2.DecodeNested(bad); !errors.Is(err, errStub) {
					viol("decode-error-not-propagated", fmt.Sprintf("error of the nested Unmarshal not returned by DecodeNested (got %v)", err))
				} else if d2.Offset() != cur {
					viol("decode-cursor-moved-on-error", "DecodeNested advanced the cursor although the nested Unmarshal failed")
				}
			case *stubMarshalSize, *stubMarshalOnly:
				dst := &stubTo{}
				if err := dec.DecodeNested(dst); err != nil || !bytes.Equal(dst.got, B) {
					viol("decode-value", fmt.Sprintf("DecodeNested does not return the payload written (err=%v)", err))
				}
			default:
				tt := nc.desc["target"].(target)
				dst := tt.pkg.New(tt.md.FullName())
				if other, ok := nc.desc["other"].(any); ok && other != nil {
					// decode into a message that already holds other content: the result must not depend on it
					dst = other
				}
				if err := dec.DecodeNested(dst); err != nil {
					viol("decode-error", "DecodeNested failed on the bytes EncodeNested wrote: "+err.Error())
					return
				}
				orig, e1 := tt.pkg.ToDynamic(nc.msg)
				back, e2 := tt.pkg.ToDynamic(dst)
				if e1 != nil || e2 != nil || !bridge.Equal(orig, back) {
					viol("decode-value", "DecodeNested does not yield a message equal to the one encoded")
				}
			}
			if dec.Offset() != f.End {
				viol("decode-consumed", fmt.Sprintf("DecodeNested left the cursor at %d, the field ends at %d", dec.Offset(), f.End))
				return
			}
		}
		// the same field with an over-long (padded, still valid) length prefix followed by another field: DecodeNested
		// must consume exactly key + prefix as written + payload
		{
			alt := refwire.AppendKey(nil, tag, refwire.WTLen)
			lp := refwire.AppendVarint(nil, uint64(len(B)))
			lp[len(lp)-1] |= 0x80
			lp = append(lp, 0x80, 0x00)
			alt = append(append(alt, lp...), B...)
			end := len(alt)
			alt = refwire.AppendFixed32(refwire.AppendKey(alt, 3, refwire.WTFixed32), 0xCAFEBABE)
			d5 := csproto.NewDecoder(alt)
			var derr error
			var nt int
			var nwt csproto.WireType
			pi := monitor.Try(func() {
				if _, _, derr = d5.DecodeTag(); derr != nil {
					return
				}
				var dst any = &stubTo{}
				if tt, ok := nc.desc["target"].(target); ok {
					dst = tt.pkg.New(tt.md.FullName())
				}
				if derr = d5.DecodeNested(dst); derr != nil {
					return
				}
				if d5.Offset() != end {
					derr = fmt.Errorf("cursor at %d after DecodeNested, the field ends at %d", d5.Offset(), end)
					return
				}
				nt, nwt, derr = d5.DecodeTag()
				if derr == nil && (nt != 3 || nwt != csproto.WireTypeFixed32) {
					derr = fmt.Errorf("next key read as (%d, %d), written (3, fixed32)", nt, nwt)
				}
			})
			if pi != nil {
				viol("decode-padded-length-prefix", "DecodeNested panicked on a field with an over-long length prefix: "+pi.Value)
			} else if derr != nil {
				viol("decode-padded-length-prefix", "field with an over-long (valid) length prefix: "+derr.Error())
			}
		}
		// declared length beyond the buffer: rejected without invoking the nested decoder
		if len(B) > 0 {
			// in both decoder modes, and both with the rest of the (larger) buffer as spare capacity behind the slice
			// and with no capacity beyond its length
			for _, fast := range []bool{false, true} {
				for _, tight := range []bool{false, true} {
					trunc := buf[:before+len(want)-1]
					if tight {
						trunc = append([]byte(nil), trunc...)
						trunc = trunc[:len(trunc):len(trunc)]
					}
					d3 := csproto.NewDecoder(trunc)
					if fast {
						d3.SetMode(csproto.DecoderModeFast)
					}
					_, _ = d3.Seek(int64(before+refwire.SizeKey(tag)), 0)
					probe := &stubTo{}
					var err error
					if pi := monitor.Try(func() { err = d3.DecodeNested(probe) }); pi != nil {
						viol("decode-overlong-length-panic", fmt.Sprintf("DecodeNested panicked on a declared length beyond the buffer (fast=%v, spare capacity=%v): %s", fast, !tight, pi.Value))
					} else if err == nil || probe.calls != 0 {
						viol("decode-overlong-length", fmt.Sprintf("declared length beyond the buffer (fast=%v, spare capacity=%v): err=%v, nested decoder invoked %d times", fast, !tight, err, probe.calls))
					} else if off := d3.Offset(); off > len(trunc) {
						viol("decode-overlong-length-cursor", fmt.Sprintf("cursor %d beyond the %d-byte input after the refused field", off, len(trunc)))
					}
				}
			}
		}
		classes[nc.kind+"/"+position+"/"+lenBucket(len(B))]++
	}
	positions := []string{"only", "first", "middle", "last"}
	tags := []int{1, 16, 2048, 1<<28 + 1}
	// ---- stubs
	if cfg.shard == 0 {
		r := monitor.NewRand(cfg.seed, "c19-stubs")
		for i := 0; i < 40*nvals; i++ {
			n := []int{0, 1, 127, 128, 300, 20000}[r.Intn(6)]
			p := r.Bytes(n)
			fail := i%7 == 3
			var werr error
			if fail {
				werr = errStub
			}
			cases := []nestedCase{
				{kind: "stub-MarshalTo+Size", msg: &stubTo{payload: p, fail: fail}, wantErr: werr, exact: true, desc: map[string]any{"payload_len": n}},
				{kind: "stub-Marshal+Size", msg: &stubMarshalSize{payload: p, fail: fail}, wantErr: werr, exact: true, desc: map[string]any{"payload_len": n}},
				{kind: "stub-Marshal-only", msg: &stubMarshalOnly{payload: p, fail: fail}, wantErr: werr, exact: true, desc: map[string]any{"payload_len": n}},
			}
			for _, nc := range cases {
				cfg.progress.Set("C19", nc.kind, fmt.Sprint(n))
				check(nc, tags[i%len(tags)], positions[i%len(positions)])
			}
		}
		res.Sample(map[string]any{"nested_kind": "stub-Marshal-only", "payload_len": 300, "position": "middle", "tag": 16})
		// runtime-only children (no fast-marshal code) whose own Marshal fails, some of them after producing bytes
		failing := []nestedCase{
			{kind: "plain-gv2-invalid-utf8", msg: &wrapperspb.StringValue{Value: "ab\xffcd"}},
			{kind: "plain-gv2-invalid-utf8-struct", msg: &structpb.Value{Kind: &structpb.Value_StringValue{StringValue: "\xc3\x28"}}},
			{kind: "plain-gv2-required-unset", msg: &descriptorpb.UninterpretedOption_NamePart{IsExtension: proto.Bool(true)}},
			{kind: "plain-gv2-required-unset-empty", msg: &descriptorpb.UninterpretedOption_NamePart{}},
			{kind: "plain-gv2-required-unset-deep", msg: &descriptorpb.UninterpretedOption{IdentifierValue: proto.String("x"), Name: []*descriptorpb.UninterpretedOption_NamePart{{NamePart: proto.String("a")}}}},
			{kind: "plain-gogo-required-unset", msg: &gogodesc.UninterpretedOption_NamePart{IsExtension: proto.Bool(true)}},
			{kind: "plain-gogo-required-unset-deep", msg: &gogodesc.UninterpretedOption{IdentifierValue: proto.String("x"), Name: []*gogodesc.UninterpretedOption_NamePart{{NamePart: proto.String("a")}}}},
			{kind: "plain-gogo-invalid-utf8", msg: &gogotypes.StringValue{Value: "ab\xffcd"}},
		}
		for i, nc := range failing {
			nc.exact, nc.failOnly = true, true
			nc.desc = map[string]any{"value": fmt.Sprintf("%+v", nc.msg)}
			for j := range positions {
				cfg.progress.Set("C19", nc.kind)
				check(nc, tags[(i+j)%len(tags)], positions[j])
			}
		}
	}
	// ---- generated fast types and plain types of the three runtimes
	var targets []target
	targets = append(targets, cfg.targets(true)...)
	targets = append(targets, cfg.targets(false)...)
	for ti, t := range targets {
		kind := "plain-" + t.pkg.Flavour
		if t.pkg.Fast {
			kind = "fast-" + t.pkg.Flavour
		}
		g := cfg.gen(t)
		g.NoExt = true
		cases := append(g.Boundary(t.md)[:1], g.Random(t.md))
		for i := 0; i < nvals; i++ {
			cases = append(cases, g.Random(t.md))
		}
		for ci, c := range cases {
			gen, err := build(t, c.Msg)
			if err != nil {
				break
			}
			cfg.progress.Set("C19", t.pkg.GoPkg, string(t.md.FullName()), c.Class)
			check(nestedCase{kind: kind, msg: gen, exact: !hasBigMap(c.Msg.ProtoReflect()),
				desc: map[string]any{"package": t.pkg.GoPkg, "message": string(t.md.FullName()), "value": bridge.Text(c.Msg), "target": t}},
				tags[(ti+ci)%len(tags)], positions[(ti+ci)%len(positions)])
			// the same, decoding into a destination that already holds the next case's value
			if other, err := build(t, cases[(ci+1)%len(cases)].Msg); err == nil {
				check(nestedCase{kind: kind + "+reused-destination", msg: gen, exact: !hasBigMap(c.Msg.ProtoReflect()),
					desc: map[string]any{"package": t.pkg.GoPkg, "message": string(t.md.FullName()), "value": bridge.Text(c.Msg), "target": t, "other": other}},
					tags[(ti+ci)%len(tags)], positions[(ti+ci+1)%len(positions)])
			}
			// a second object with the same contents that nobody has sized or marshaled before
			if cold, err := build(t, c.Msg); err == nil {
				check(nestedCase{kind: kind + "+never-sized", msg: cold, ref: gen, exact: !hasBigMap(c.Msg.ProtoReflect()),
					desc: map[string]any{"package": t.pkg.GoPkg, "message": string(t.md.FullName()), "value": bridge.Text(c.Msg), "target": t}},
					tags[(ti+ci)%len(tags)], positions[(ti+ci+2)%len(positions)])
			}
			if res.WantSample() && ci == 1 {
				res.Sample(map[string]any{"nested_kind": kind, "package": t.pkg.GoPkg, "message": string(t.md.FullName()), "value": bridge.Text(c.Msg)})
			}
		}
	}
	res.Eval(evals)
	res.MergeClasses(classes)
}

func clipBytes(b []byte) []byte {
	if len(b) > 48 {
		return b[:48]
	}
	return b
}

func lenBucket(n int) string {
	switch {
	case n == 0:
		return "empty"
	case n < 128:
		return "<128"
	}
	return ">=128"
}
