package genwl

import (
	"bytes"
	"fmt"
	"google.golang.org/protobuf/reflect/protodesc"
	"google.golang.org/protobuf/reflect/protoregistry"
	"google.golang.org/protobuf/types/descriptorpb"
	"reflect"
	"sort"

	"github.com/CrowdStrike/csproto"
	gogoproto "github.com/gogo/protobuf/proto"
	golangproto "github.com/golang/protobuf/proto"
	"google.golang.org/protobuf/proto"
	"google.golang.org/protobuf/reflect/protoreflect"
	"google.golang.org/protobuf/types/dynamicpb"

	"verifharness/bridge"
	"verifharness/monitor"
	"verifharness/refwire"
)

// C12: extension accessors are coherent on every runtime.

// runtimeHas / runtimeGet call the owning runtime's own extension API.
func runtimeHas(flavour string, msg, desc any) bool {
	switch flavour {
	case "gogo":
		return gogoproto.HasExtension(msg.(gogoproto.Message), desc.(*gogoproto.ExtensionDesc))
	case "gv1":
		return golangproto.HasExtension(msg.(golangproto.Message), desc.(*golangproto.ExtensionDesc))
	}
	return proto.HasExtension(msg.(proto.Message), desc.(protoreflect.ExtensionType))
}

func runtimeGet(flavour string, msg, desc any) (any, error) {
	switch flavour {
	case "gogo":
		return gogoproto.GetExtension(msg.(gogoproto.Message), desc.(*gogoproto.ExtensionDesc))
	case "gv1":
		return golangproto.GetExtension(msg.(golangproto.Message), desc.(*golangproto.ExtensionDesc))
	}
	return proto.GetExtension(msg.(proto.Message), desc.(protoreflect.ExtensionType)), nil
}

func runtimeSet(flavour string, msg, desc, val any) error {
	switch flavour {
	case "gogo":
		return gogoproto.SetExtension(msg.(gogoproto.Message), desc.(*gogoproto.ExtensionDesc), val)
	case "gv1":
		return golangproto.SetExtension(msg.(golangproto.Message), desc.(*golangproto.ExtensionDesc), val)
	}
	proto.SetExtension(msg.(proto.Message), desc.(protoreflect.ExtensionType), val)
	return nil
}

func runtimeClear(flavour string, msg, desc any) {
	switch flavour {
	case "gogo":
		gogoproto.ClearExtension(msg.(gogoproto.Message), desc.(*gogoproto.ExtensionDesc))
	case "gv1":
		golangproto.ClearExtension(msg.(golangproto.Message), desc.(*golangproto.ExtensionDesc))
	default:
		proto.ClearExtension(msg.(proto.Message), desc.(protoreflect.ExtensionType))
	}
}

func runtimeClearAll(flavour string, msg any) {
	switch flavour {
	case "gogo":
		gogoproto.ClearAllExtensions(msg.(gogoproto.Message))
	case "gv1":
		golangproto.ClearAllExtensions(msg.(golangproto.Message))
	default:
		m := msg.(proto.Message)
		proto.RangeExtensions(m, func(xt protoreflect.ExtensionType, _ interface{}) bool { proto.ClearExtension(m, xt); return true })
	}
}

func runC12(cfg *config, res *monitor.Result) {
	nseq := 100
	if cfg.thorough() {
		nseq = 1500
	}
	classes := map[string]int64{}
	var evals int64
	// foreign descriptors for the mismatch clause: by unit and extension name, one per flavour
	foreign := map[string]map[string]any{} // unit/extname -> flavour -> desc
	for _, p := range cfg.pkgs {
		if p.OptKey != "plain" {
			continue
		}
		for fn, d := range p.GenExt {
			k := p.Unit + "/" + string(fn.Name())
			if foreign[k] == nil {
				foreign[k] = map[string]any{}
			}
			foreign[k][p.Flavour] = d
		}
	}
	// plain types (the runtime's own marshal code) and fast types (csproto.Marshal runs the generated extension code)
	targets := append(cfg.targets(false), cfg.targets(true)...)
	for _, t := range targets {
		exts := t.pkg.Exts[t.md.FullName()]
		if len(exts) == 0 {
			continue
		}
		sort.Slice(exts, func(i, j int) bool { return exts[i].TypeDescriptor().Number() < exts[j].TypeDescriptor().Number() })
		g := cfg.gen(t)
		r := monitor.NewRand(cfg.seed, "c12", t.pkg.GoPkg, string(t.md.FullName()))
		for s := 0; s < nseq; s++ {
			msg := t.pkg.New(t.md.FullName())
			// regular field set so that "message unchanged" is observable
			base := dynamicpb.NewMessage(t.md)
			if fd := t.md.Fields().ByName("id"); fd != nil {
				base.Set(fd, protoreflect.ValueOfInt32(int32(1000+s)))
			}
			_ = t.pkg.FromDynamic(base, msg)
			// shadow: the same history applied through the owning runtime's own API; after every step both
			// messages must be in the same state (extensions and unknown fields included)
			shadow := t.pkg.New(t.md.FullName())
			_ = t.pkg.FromDynamic(base, shadow)
			inUnknown := map[protoreflect.FieldNumber]bool{} // extensions injected as raw unknown bytes
			model := map[protoreflect.FieldNumber][]byte{}   // number -> canonical bytes of the value
			var trace []string
			setSeen, clearSeen := false, false
			nops := 3 + r.Intn(8)
			for op := 0; op < nops; op++ {
				xt := exts[r.Intn(len(exts))]
				dfd := xt.TypeDescriptor()
				desc := t.pkg.GenExt[dfd.FullName()]
				num := dfd.Number()
				kindKey := fmt.Sprintf("%s/%s", dfd.Kind(), map[bool]string{true: "repeated", false: "optional"}[dfd.IsList()])
				viol := func(fn, failure, what string) {
					fl := t.pkg.Flavour
					if t.pkg.Fast {
						fl += "+fast"
					}
					sig := fmt.Sprintf("C12:%s:%s:%s:%s", fl, fn, failure, kindKey)
					res.Violate(sig, fmt.Sprintf("%s (%s) extension %s: %s (history %v)", t.md.FullName(), t.pkg.GoPkg, dfd.Name(), what, trace),
						map[string]any{"package": t.pkg.GoPkg, "message": string(t.md.FullName()), "extension": string(dfd.FullName()), "history": append([]string(nil), trace...)})
				}
				cfg.progress.Set("C12", t.pkg.GoPkg, string(dfd.FullName()), fmt.Sprint(trace))
				pi := monitor.Try(func() {
					switch c := r.Intn(10); {
					case c < 4: // Set
						scratch := dynamicpb.NewMessage(t.md)
						var dv protoreflect.Value
						if dfd.IsList() {
							l := scratch.Mutable(dfd).List()
							for k := 1 + r.Intn(3); k > 0; k-- {
								if dfd.Kind() == protoreflect.MessageKind {
									// empty unless the type has required fields
									l.Append(protoreflect.ValueOfMessage(minimalComplete(dfd.Message(), 0).ProtoReflect()))
								} else {
									l.Append(g.RandomScalarValue(dfd))
								}
							}
							dv = scratch.Get(dfd)
						} else if dfd.Kind() == protoreflect.MessageKind {
							dv = scratch.NewField(dfd)
							sub := cfg.gen(t, "extmsg", s, op)
							sub.NoExt = true
							child := sub.Random(dfd.Message()).Msg
							dv = protoreflect.ValueOfMessage(child.ProtoReflect())
						} else {
							dv = g.RandomScalarValue(dfd)
						}
						scratch2 := dynamicpb.NewMessage(t.md)
						scratch2.Set(dfd, dv)
						want, _ := bridge.MarshalRef(scratch2)
						goVal, err := t.pkg.ExtDynToGo(dfd, dv)
						if err != nil {
							res.Inconc("cannot build extension value: " + err.Error())
							return
						}
						trace = append(trace, fmt.Sprintf("Set(%s)", dfd.Name()))
						evals++
						if err := csproto.SetExtension(msg, desc, goVal); err != nil {
							viol("SetExtension", "error", "SetExtension failed with a value in the runtime's own convention: "+err.Error())
							return
						}
						goVal2, _ := t.pkg.ExtDynToGo(dfd, dv)
						_ = runtimeSet(t.pkg.Flavour, shadow, desc, goVal2)
						model[num] = want
						setSeen = true
					case c < 6: // Clear
						trace = append(trace, fmt.Sprintf("Clear(%s)", dfd.Name()))
						evals++
						csproto.ClearExtension(msg, desc)
						runtimeClear(t.pkg.Flavour, shadow, desc)
						delete(model, num)
						clearSeen = true
					case c == 6: // ClearAll
						trace = append(trace, "ClearAll")
						evals++
						csproto.ClearAllExtensions(msg)
						runtimeClearAll(t.pkg.Flavour, shadow)
						model = map[protoreflect.FieldNumber][]byte{}
						clearSeen = true
					case c == 7 && !dfd.IsList():
						// the extension arrives as raw bytes in the unknown fields (decoded while the descriptor was not
						// resolvable): what the accessors do with it is the owning runtime's business - csproto must match it
						scratch := dynamicpb.NewMessage(t.md)
						var dv protoreflect.Value
						if dfd.Kind() == protoreflect.MessageKind {
							dv = protoreflect.ValueOfMessage(minimalComplete(dfd.Message(), 0).ProtoReflect())
						} else {
							dv = g.RandomScalarValue(dfd)
						}
						scratch.Set(dfd, dv)
						raw, _ := bridge.MarshalRef(scratch)
						trace = append(trace, fmt.Sprintf("InjectUnknown(%s)", dfd.Name()))
						for _, m := range []any{msg, shadow} {
							r := bridge.Reflect(m)
							r.SetUnknown(append(append(protoreflect.RawFields(nil), r.GetUnknown()...), raw...))
						}
						inUnknown[num] = true
					default:
						trace = append(trace, fmt.Sprintf("Check(%s)", dfd.Name()))
					}
					// --- observations after every operation
					for _, x := range exts {
						xd := x.TypeDescriptor()
						xdesc := t.pkg.GenExt[xd.FullName()]
						evals++
						has := csproto.HasExtension(msg, xdesc)
						_, inModel := model[xd.Number()]
						if rh := runtimeHas(t.pkg.Flavour, shadow, xdesc); rh != has {
							viol("HasExtension", "differs-from-runtime-history", fmt.Sprintf("HasExtension(%s)=%v, the same history through the runtime's own API gives %v", xd.Name(), has, rh))
						}
						if inUnknown[xd.Number()] {
							continue // the model does not define this state; the shadow comparison does
						}
						if has != inModel {
							viol("HasExtension", "differs-from-history", fmt.Sprintf("HasExtension(%s)=%v, expected %v", xd.Name(), has, inModel))
						}
						if rh := runtimeHas(t.pkg.Flavour, msg, xdesc); rh != has {
							viol("HasExtension", "differs-from-runtime", fmt.Sprintf("HasExtension(%s)=%v, the runtime's own HasExtension=%v", xd.Name(), has, rh))
						}
						if inModel {
							gv, err := csproto.GetExtension(msg, xdesc)
							if err != nil {
								viol("GetExtension", "error", "GetExtension failed for a set extension: "+err.Error())
								continue
							}
							gb, err := t.pkg.ExtGoToBytes(xd, gv)
							if err != nil || !bytes.Equal(gb, model[xd.Number()]) {
								viol("GetExtension", "wrong-value", fmt.Sprintf("GetExtension(%s) does not return the value set (err=%v)", xd.Name(), err))
							}
							rv, rerr := runtimeGet(t.pkg.Flavour, msg, xdesc)
							rb, err2 := t.pkg.ExtGoToBytes(xd, rv)
							if rerr != nil || err2 != nil || !bytes.Equal(rb, gb) {
								viol("GetExtension", "differs-from-runtime", fmt.Sprintf("GetExtension(%s) differs from the runtime's own GetExtension", xd.Name()))
							}
						}
						n, err := csproto.ExtensionFieldNumber(xdesc)
						if err != nil || n != int(xd.Number()) {
							viol("ExtensionFieldNumber", "wrong", fmt.Sprintf("ExtensionFieldNumber(%s)=%d err=%v, declared %d", xd.Name(), n, err, xd.Number()))
						}
					}
					// the whole message state must equal the shadow's
					evals++
					md1, e1 := t.pkg.ToDynamic(msg)
					md2, e2 := t.pkg.ToDynamic(shadow)
					if e1 == nil && e2 == nil && !bridge.Equal(md1, md2) {
						viol("State", "differs-from-runtime-history", "after the same history the message differs from one driven through the runtime's own extension API: "+fmt.Sprint(bridge.Diff(md2.ProtoReflect(), md1.ProtoReflect())))
					}
					if len(inUnknown) > 0 {
						return // set-based checks below assume extensions live in known storage
					}
					// Range visits exactly the set extensions
					visited := map[int32]int{}
					evals++
					rangeVals := map[int32]interface{}{}
					if err := csproto.RangeExtensions(msg, func(v interface{}, _ string, field int32) error { visited[field]++; rangeVals[field] = v; return nil }); err != nil {
						viol("RangeExtensions", "error", "RangeExtensions failed: "+err.Error())
					}
					// the value handed to the callback is what the owning runtime's own enumeration API hands out: the value
					// itself for Google V2 (proto.RangeExtensions), the extension descriptor for Gogo and Google V1 (ExtensionDescs)
					rtVals := map[int32]interface{}{}
					if t.pkg.Flavour == "gv2" {
						proto.RangeExtensions(msg.(proto.Message), func(xt protoreflect.ExtensionType, v interface{}) bool {
							rtVals[int32(xt.TypeDescriptor().Number())] = v
							return true
						})
					}
					for _, x := range exts {
						xd := x.TypeDescriptor()
						rv, ok := rangeVals[int32(xd.Number())]
						if !ok {
							continue
						}
						if t.pkg.Flavour != "gv2" {
							if rv != t.pkg.GenExt[xd.FullName()] {
								viol("RangeExtensions", "value-differs-from-runtime", fmt.Sprintf("RangeExtensions passed a %T for extension %s, the runtime's ExtensionDescs hands out the registered descriptor", rv, xd.Name()))
							}
							continue
						}
						gv, ok := rtVals[int32(xd.Number())]
						if !ok {
							continue
						}
						if reflect.TypeOf(rv) != reflect.TypeOf(gv) {
							viol("RangeExtensions", "value-type-differs-from-runtime", fmt.Sprintf("RangeExtensions passed a %T for extension %s, the runtime's RangeExtensions passes a %T", rv, xd.Name(), gv))
							continue
						}
						b1, e1 := t.pkg.ExtGoToBytes(xd, rv)
						b2, e2 := t.pkg.ExtGoToBytes(xd, gv)
						if e1 != nil || e2 != nil || !bytes.Equal(b1, b2) {
							viol("RangeExtensions", "value-differs-from-runtime", fmt.Sprintf("RangeExtensions passed another value for extension %s than the runtime's RangeExtensions", xd.Name()))
						}
					}
					for n := range model {
						if visited[int32(n)] != 1 {
							viol("RangeExtensions", "missed-or-repeated", fmt.Sprintf("RangeExtensions visited set extension %d %d times", n, visited[int32(n)]))
						}
					}
					if len(visited) != len(model) {
						viol("RangeExtensions", "extra", fmt.Sprintf("RangeExtensions visited %d extensions, %d are set", len(visited), len(model)))
					}
					// marshaled bytes contain exactly the set extensions
					evals++
					b, err := csproto.Marshal(msg)
					if err != nil {
						viol("Marshal", "error", "csproto.Marshal failed: "+err.Error())
						return
					}
					fs, werr := refwire.Walk(b)
					if werr != nil {
						viol("Marshal", "unparsable", "csproto.Marshal output is not well-formed")
						return
					}
					present := map[protoreflect.FieldNumber]bool{}
					for _, f := range fs {
						present[protoreflect.FieldNumber(f.Num)] = true
					}
					for _, x := range exts {
						n := x.TypeDescriptor().Number()
						_, inModel := model[n]
						if present[n] && !inModel {
							viol("Marshal", "cleared-extension-still-encoded", fmt.Sprintf("extension %d appears in the marshaled bytes although it is not set", n))
						}
						if !present[n] && inModel && !(x.TypeDescriptor().IsList() && len(model[n]) == 0) {
							viol("Marshal", "set-extension-not-encoded", fmt.Sprintf("set extension %d does not appear in the marshaled bytes", n))
						}
					}
				})
				if pi != nil {
					sig := fmt.Sprintf("C12:%s:any:panic:%s:%s", t.pkg.Flavour, pi.Frame, kindKey)
					res.Violate(sig, fmt.Sprintf("%s (%s): an extension accessor panicked: %s (history %v)", t.md.FullName(), t.pkg.GoPkg, pi.Value, trace),
						map[string]any{"package": t.pkg.GoPkg, "history": append([]string(nil), trace...), "stack": pi.Stack})
					break
				}
			}
			// Google V2: an extension type that is NOT in the global registry (built at run time from a descriptor, as
			// protocompile/buf/dynamic clients do). Set/Has/ClearAll/Has/Marshal must treat it like any other.
			if s == 0 && t.pkg.Flavour == "gv2" {
				evals += c12DynamicExtension(t, res)
			}
			if setSeen && clearSeen {
				classes[fmt.Sprintf("%s/fast=%v/%s/%s", t.pkg.Flavour, t.pkg.Fast, t.pkg.Unit, opBigrams(trace))]++
			}
			if res.WantSample() && s == 1 {
				res.Sample(map[string]any{"package": t.pkg.GoPkg, "message": string(t.md.FullName()), "history": trace})
			}
			// --- mismatching descriptor kinds (gogo <-> google): false / error, message unchanged
			before, _ := t.pkg.ToDynamic(msg)
			for _, x := range exts {
				xd := x.TypeDescriptor()
				k := t.pkg.Unit + "/" + string(xd.FullName().Name())
				for fl, fdesc := range foreign[k] {
					if (fl == "gogo") == (t.pkg.Flavour == "gogo") {
						continue // same descriptor family
					}
					evals++
					pi := monitor.Try(func() {
						if csproto.HasExtension(msg, fdesc) {
							res.Violate("C12:"+t.pkg.Flavour+":mismatch:HasExtension:true", "HasExtension is true for a descriptor of another runtime", map[string]any{"package": t.pkg.GoPkg, "descriptor_flavour": fl})
						}
						if _, err := csproto.GetExtension(msg, fdesc); err == nil {
							res.Violate("C12:"+t.pkg.Flavour+":mismatch:GetExtension:no-error", "GetExtension returned no error for a descriptor of another runtime", map[string]any{"package": t.pkg.GoPkg, "descriptor_flavour": fl})
						}
						if err := csproto.SetExtension(msg, fdesc, int32(1)); err == nil {
							res.Violate("C12:"+t.pkg.Flavour+":mismatch:SetExtension:no-error", "SetExtension returned no error for a descriptor of another runtime", map[string]any{"package": t.pkg.GoPkg, "descriptor_flavour": fl})
						}
					})
					if pi != nil {
						res.Violate("C12:"+t.pkg.Flavour+":mismatch:panic:"+pi.Frame, "an accessor panicked for a descriptor of another runtime: "+pi.Value, map[string]any{"package": t.pkg.GoPkg, "descriptor_flavour": fl})
					}
					// ClearExtension is documented to panic here; the message must be unchanged either way
					_ = monitor.Try(func() { csproto.ClearExtension(msg, fdesc) })
					after, _ := t.pkg.ToDynamic(msg)
					if before != nil && after != nil && !bridge.Equal(before, after) {
						res.Violate("C12:"+t.pkg.Flavour+":mismatch:message-modified", "the message changed after accessor calls with a descriptor of another runtime", map[string]any{"package": t.pkg.GoPkg, "descriptor_flavour": fl})
					}
					classes[fmt.Sprintf("mismatch/%s-msg/%s-desc", t.pkg.Flavour, fl)]++
				}
			}
		}
	}
	res.Eval(evals)
	res.MergeClasses(classes)
}

func c12DynamicExtension(t target, res *monitor.Result) (evals int64) {
	pm, ok := t.pkg.New(t.md.FullName()).(proto.Message)
	if !ok {
		return 0
	}
	gmd := pm.ProtoReflect().Descriptor()
	var nums []int32
	for n := int32(999); n > 100 && len(nums) < 2; n-- {
		if gmd.ExtensionRanges().Has(protoreflect.FieldNumber(n)) {
			used := false
			for _, x := range t.pkg.Exts[t.md.FullName()] {
				used = used || int32(x.TypeDescriptor().Number()) == n
			}
			if !used {
				nums = append(nums, n)
			}
		}
	}
	if len(nums) < 2 {
		return 0
	}
	lbl := descriptorpb.FieldDescriptorProto_LABEL_OPTIONAL
	fdp := &descriptorpb.FileDescriptorProto{
		Name: proto.String("verifdyn/" + t.pkg.GoPkg + "_" + string(gmd.Name()) + ".proto"), Package: proto.String("verifdyn." + t.pkg.GoPkg),
		Dependency: []string{gmd.ParentFile().Path()},
		Extension: []*descriptorpb.FieldDescriptorProto{
			{Name: proto.String("dyn_note"), Number: proto.Int32(nums[0]), Label: lbl.Enum(), Type: descriptorpb.FieldDescriptorProto_TYPE_STRING.Enum(), Extendee: proto.String("." + string(gmd.FullName()))},
			{Name: proto.String("dyn_level"), Number: proto.Int32(nums[1]), Label: lbl.Enum(), Type: descriptorpb.FieldDescriptorProto_TYPE_INT32.Enum(), Extendee: proto.String("." + string(gmd.FullName()))},
		},
	}
	fd, err := protodesc.NewFile(fdp, protoregistry.GlobalFiles)
	if err != nil {
		res.Inconc("dynamic extension file for " + string(gmd.FullName()) + ": " + err.Error())
		return 0
	}
	note, level := dynamicpb.NewExtensionType(fd.Extensions().Get(0)), dynamicpb.NewExtensionType(fd.Extensions().Get(1))
	viol := func(failure, what string) {
		res.Violate("C12:gv2:dynamic-extension-type:"+failure, fmt.Sprintf("%s (%s), extension types built at run time (not in the global registry): %s", t.md.FullName(), t.pkg.GoPkg, what),
			map[string]any{"package": t.pkg.GoPkg, "message": string(t.md.FullName()), "numbers": nums})
	}
	pi := monitor.Try(func() {
		evals = 6
		if err := csproto.SetExtension(pm, note, "hello"); err != nil {
			viol("SetExtension:error", "SetExtension failed: "+err.Error())
			return
		}
		if err := csproto.SetExtension(pm, level, int32(5)); err != nil {
			viol("SetExtension:error", "SetExtension failed: "+err.Error())
			return
		}
		if !csproto.HasExtension(pm, note) || !csproto.HasExtension(pm, level) {
			viol("HasExtension:false-after-set", "HasExtension is false after SetExtension")
		}
		if v, err := csproto.GetExtension(pm, note); err != nil || v != "hello" {
			viol("GetExtension:differs", fmt.Sprintf("GetExtension returned (%v, %v) after SetExtension(\"hello\")", v, err))
		}
		csproto.ClearExtension(pm, level)
		if csproto.HasExtension(pm, level) || !csproto.HasExtension(pm, note) {
			viol("ClearExtension", "after ClearExtension of one extension: HasExtension is wrong for it or for the other one")
		}
		_ = csproto.SetExtension(pm, level, int32(6))
		csproto.ClearAllExtensions(pm)
		if csproto.HasExtension(pm, note) || csproto.HasExtension(pm, level) {
			viol("ClearAllExtensions:still-set", "HasExtension is still true after ClearAllExtensions")
		}
		visited := 0
		_ = csproto.RangeExtensions(pm, func(interface{}, string, int32) error { visited++; return nil })
		if visited != 0 {
			viol("ClearAllExtensions:still-ranged", fmt.Sprintf("RangeExtensions still visits %d extension(s) after ClearAllExtensions", visited))
		}
		if b, err := csproto.Marshal(pm); err != nil || len(b) != 0 {
			viol("ClearAllExtensions:still-encoded", fmt.Sprintf("csproto.Marshal returns %d bytes (err=%v) for a message whose only content was cleared by ClearAllExtensions", len(b), err))
		}
	})
	if pi != nil {
		viol("panic", "an extension accessor panicked: "+pi.Value)
	}
	return evals
}
