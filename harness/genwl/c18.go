package genwl

import (
	"bytes"
	"encoding/json"
	"fmt"
	"google.golang.org/protobuf/types/dynamicpb"
	"math"
	"reflect"
	"strings"
	"sync"
	"sync/atomic"

	"github.com/CrowdStrike/csproto"
	gogojson "github.com/gogo/protobuf/jsonpb"
	gogoproto "github.com/gogo/protobuf/proto"
	gogotypes "github.com/gogo/protobuf/types"
	"github.com/golang/protobuf/jsonpb"
	golangproto "github.com/golang/protobuf/proto"
	"google.golang.org/protobuf/encoding/protojson"
	"google.golang.org/protobuf/proto"
	"google.golang.org/protobuf/reflect/protoreflect"
	"google.golang.org/protobuf/types/known/durationpb"
	"google.golang.org/protobuf/types/known/emptypb"
	"google.golang.org/protobuf/types/known/fieldmaskpb"
	"google.golang.org/protobuf/types/known/structpb"
	"google.golang.org/protobuf/types/known/timestamppb"
	"google.golang.org/protobuf/types/known/wrapperspb"

	"verifharness/bridge"
	"verifharness/monitor"
)

// C18: JSON adapters round-trip and honour their options on every runtime.

// jsonSafe reports whether the value can be carried by JSON without loss the adapters do not promise
// to avoid (NaN payloads, negative zero).
func jsonSafe(m protoreflect.Message, depth int) bool {
	ok := true
	m.Range(func(fd protoreflect.FieldDescriptor, v protoreflect.Value) bool {
		chk := func(fd protoreflect.FieldDescriptor, v protoreflect.Value) {
			switch fd.Kind() {
			case protoreflect.FloatKind, protoreflect.DoubleKind:
				f := v.Float()
				if f != f || (f == 0 && math.Signbit(f)) {
					ok = false
				}
			case protoreflect.MessageKind:
				if depth < 6 && !jsonSafe(v.Message(), depth+1) {
					ok = false
				}
			}
		}
		switch {
		case fd.IsMap():
			v.Map().Range(func(_ protoreflect.MapKey, mv protoreflect.Value) bool { chk(fd.MapValue(), mv); return ok })
		case fd.IsList():
			for i := 0; i < v.List().Len(); i++ {
				chk(fd, v.List().Get(i))
			}
		default:
			chk(fd, v)
		}
		return ok
	})
	return ok
}

func runtimeJSONMarshal(flavour string, msg any, indent string, enumNums, emitZero bool) ([]byte, error) {
	switch flavour {
	case "gogo":
		var buf bytes.Buffer
		err := (&gogojson.Marshaler{Indent: indent, EnumsAsInts: enumNums, EmitDefaults: emitZero}).Marshal(&buf, msg.(gogoproto.Message))
		return buf.Bytes(), err
	case "gv1":
		var buf bytes.Buffer
		err := (&jsonpb.Marshaler{Indent: indent, EnumsAsInts: enumNums, EmitDefaults: emitZero}).Marshal(&buf, msg.(golangproto.Message))
		return buf.Bytes(), err
	}
	return protojson.MarshalOptions{Indent: indent, UseEnumNumbers: enumNums, EmitUnpopulated: emitZero}.Marshal(msg.(proto.Message))
}

func runtimeJSONUnmarshal(flavour string, data []byte, msg any) error {
	switch flavour {
	case "gogo":
		return gogojson.Unmarshal(bytes.NewReader(data), msg.(gogoproto.Message))
	case "gv1":
		return jsonpb.Unmarshal(bytes.NewReader(data), msg.(golangproto.Message))
	}
	return protojson.Unmarshal(data, msg.(proto.Message))
}

func jsonTree(b []byte) (any, error) {
	var v any
	d := json.NewDecoder(bytes.NewReader(b))
	d.UseNumber()
	err := d.Decode(&v)
	return v, err
}

func indentOK(out []byte, indent string) string {
	if indent == "" {
		return ""
	}
	lines := strings.Split(string(out), "\n")
	if len(lines) < 2 {
		return ""
	}
	for _, l := range lines {
		ws := l[:len(l)-len(strings.TrimLeft(l, " \t"))]
		if len(ws)%len(indent) != 0 || strings.Repeat(indent, len(ws)/len(indent)) != ws {
			return fmt.Sprintf("line %q is not indented by a whole number of copies of %q", l, indent)
		}
	}
	return ""
}

func runC18(cfg *config, res *monitor.Result) {
	nvals := 10
	if cfg.thorough() {
		nvals = 80
	}
	classes := map[string]int64{}
	var evals int64
	indents := []string{"", " ", "  ", "\t"}
	for _, t := range cfg.targets(false) {
		if t.pkg.Group == "ext-enum" || strings.HasPrefix(t.pkg.Group, "ext") && len(t.pkg.Exts[t.md.FullName()]) > 0 {
			// JSON of extension fields needs the extension registered with the runtime's JSON resolver; out of scope
			continue
		}
		if strings.HasSuffix(t.pkg.Unit, "struct") {
			// google.protobuf.Struct/Value: arbitrary message values have no JSON form (a Value needs a kind set)
			continue
		}
		// the same schema generated for another runtime gives an equally named Go package and type ("*p2req_d.Leaf"): for
		// half of the types (by seed) those twins meet the adapters first
		if monitor.NewRand(cfg.seed, "c18-twins-first", t.pkg.GoPkg, string(t.md.FullName())).Bool() {
			for _, tw := range twinsOf(cfg, t) {
				_ = monitor.Try(func() { _, _ = csproto.JSONMarshaler(tw).MarshalJSON() })
				_ = monitor.Try(func() { _ = csproto.JSONUnmarshaler(tw).UnmarshalJSON([]byte("{}")) })
				classes["twin-of-another-runtime-first/"+t.pkg.Flavour]++
			}
		}
		g := cfg.gen(t)
		g.NoExt = true
		cases := g.Boundary(t.md)
		if len(cases) > 16 {
			var kept = cases[:0:0]
			step := len(cases) / 16
			for i := 0; i < len(cases); i += step {
				kept = append(kept, cases[i])
			}
			cases = kept
		}
		for i := 0; i < nvals; i++ {
			cases = append(cases, g.Random(t.md))
		}
		// values whose strings are significant to JSON syntax, in a fixed order (a value ending in a backslash first,
		// then values holding ", " / ":  " / quotes / braces), on top of two random values
		for k := 0; k < 2; k++ {
			tv := g.Random(t.md)
			if trickyStrings(tv.Msg.ProtoReflect(), new(int), 0) >= 2 {
				tv.Class = "json-syntax-strings"
				cases = append(cases, tv)
			}
		}
		// self-recursive types: chains far deeper than any generated value (none of the runtimes' JSON codecs limits the
		// depth below 10000)
		for _, depth := range []int{101, 140} {
			for _, dc := range deepChains(t.md, depth) {
				tv := g.Random(t.md)
				tv.Msg, tv.Class, tv.Field = dc, fmt.Sprintf("deep-chain-%d", depth), ""
				cases = append(cases, tv)
			}
		}
		// overlapping adapter calls with different options (adapters are values; nothing documents them as sharing state):
		// four goroutines, four option tuples, one message - each output must be what the same call gives on its own
		if len(cases) > 0 {
			d := cases[len(cases)/2].Msg
			fixWKT(d.ProtoReflect(), 0)
			if jsonSafe(d.ProtoReflect(), 0) {
				type tuple struct {
					indent     string
					nums, zero bool
				}
				tuples := []tuple{{"", false, false}, {"  ", true, false}, {"\t", false, true}, {" ", true, true}}
				want := make([]any, len(tuples))
				okAll := true
				for i, tp := range tuples {
					g0, err := build(t, d)
					if err != nil {
						okAll = false
						break
					}
					out, err := csproto.JSONMarshaler(g0, csproto.JSONIndent(tp.indent), csproto.JSONUseEnumNumbers(tp.nums), csproto.JSONIncludeZeroValues(tp.zero)).MarshalJSON()
					if err != nil || indentOK(out, tp.indent) != "" {
						okAll = false
						break
					}
					want[i], _ = jsonTree(out)
				}
				if okAll {
					var wg sync.WaitGroup
					var bad atomic.Int64
					for i, tp := range tuples {
						wg.Add(1)
						go func(i int, tp tuple) {
							defer wg.Done()
							g1, err := build(t, d)
							if err != nil {
								return
							}
							for k := 0; k < 40; k++ {
								out, err := csproto.JSONMarshaler(g1, csproto.JSONIndent(tp.indent), csproto.JSONUseEnumNumbers(tp.nums), csproto.JSONIncludeZeroValues(tp.zero)).MarshalJSON()
								tree, _ := jsonTree(out)
								if err != nil || !reflect.DeepEqual(tree, want[i]) || indentOK(out, tp.indent) != "" {
									bad.Add(1)
								}
							}
						}(i, tp)
					}
					wg.Wait()
					evals += 160
					classes["overlapping-calls/"+t.pkg.Flavour]++
					if n := bad.Load(); n > 0 {
						res.Violate(fmt.Sprintf("C18:%s:overlapping-calls-mix-options", t.pkg.Flavour),
							fmt.Sprintf("%s (%s): %d of 160 JSONMarshaler calls made while other calls with other options were running did not honour their own options", t.md.FullName(), t.pkg.GoPkg, n),
							map[string]any{"package": t.pkg.GoPkg, "message": string(t.md.FullName()), "value": bridge.Text(d)})
					}
				}
			}
		}
		for ci, c := range cases {
			d := c.Msg
			fixWKT(d.ProtoReflect(), 0)
			if !jsonSafe(d.ProtoReflect(), 0) {
				continue
			}
			for oi := 0; oi < 8; oi++ {
				enumNums, emitZero := oi&1 != 0, oi&2 != 0
				indent := indents[(oi/4*2+ci)%len(indents)]
				optKey := fmt.Sprintf("enum%v/zero%v/indent%q", enumNums, emitZero, indent)
				viol := func(failure, what string, extra map[string]any) {
					sig := fmt.Sprintf("C18:%s:%s:%s", t.pkg.Flavour, failure, optKey)
					w := map[string]any{"package": t.pkg.GoPkg, "message": string(t.md.FullName()), "value": bridge.Text(d), "options": optKey}
					for k, v := range extra {
						w[k] = v
					}
					res.Violate(sig, fmt.Sprintf("%s (%s) [%s]: %s", t.md.FullName(), t.pkg.GoPkg, optKey, what), w)
				}
				cfg.progress.Set("C18", t.pkg.GoPkg, string(t.md.FullName()), c.Class, c.Field, optKey)
				gen, err := build(t, d)
				if err != nil {
					res.Inconc(err.Error())
					break
				}
				opts := []csproto.JSONOption{csproto.JSONIndent(indent), csproto.JSONUseEnumNumbers(enumNums), csproto.JSONIncludeZeroValues(emitZero)}
				if (oi+ci)%3 == 0 {
					// option lists are built by appending to defaults: an option given twice takes its LAST value, also when
					// that value is the one that switches the feature off
					other := indents[(oi/4*2+ci+1)%len(indents)]
					opts = append([]csproto.JSONOption{csproto.JSONIndent(other), csproto.JSONUseEnumNumbers(!enumNums), csproto.JSONIncludeZeroValues(!emitZero)}, opts...)
					classes["option-given-twice/marshal/"+t.pkg.Flavour]++
				}
				if (oi+ci)%2 == 1 {
					// a shared option list: the options of the unmarshaling side (set to the opposite values) have no
					// documented effect on marshaling
					opts = append(opts, csproto.JSONAllowUnknownFields(!enumNums), csproto.JSONAllowPartialMessages(!emitZero))
				}
				var out []byte
				var merr error
				evals++
				if pi := monitor.Try(func() { out, merr = csproto.JSONMarshaler(gen, opts...).MarshalJSON() }); pi != nil {
					viol("marshal-panic:"+pi.Frame, "JSONMarshaler panicked: "+pi.Value, nil)
					continue
				}
				// what does the owning runtime do with the same options?
				fresh, _ := build(t, d)
				rout, rerr := runtimeJSONMarshal(t.pkg.Flavour, fresh, indent, enumNums, emitZero)
				if merr != nil {
					if rerr == nil {
						viol("marshal-error", "JSONMarshaler failed although the owning runtime's encoder succeeds: "+merr.Error(), nil)
					}
					continue
				}
				js := map[string]any{"json": string(clipJSON(out))}
				if !json.Valid(out) {
					viol("invalid-json", "adapter output is not well-formed JSON", js)
					continue
				}
				tree, _ := jsonTree(out)
				if rerr == nil {
					rtree, _ := jsonTree(rout)
					if !reflect.DeepEqual(tree, rtree) {
						viol("differs-from-runtime", "adapter output differs (as a JSON tree) from the owning runtime's encoder given the same options", map[string]any{"json": string(clipJSON(out)), "runtime_json": string(clipJSON(rout))})
					}
				}
				if msg := indentOK(out, indent); msg != "" {
					viol("indent", msg, js)
				}
				// option effects visible in the tree (top level)
				if obj, ok := tree.(map[string]any); ok {
					for i := 0; i < t.md.Fields().Len(); i++ {
						fd := t.md.Fields().Get(i)
						v, present := obj[fd.JSONName()]
						if !present {
							v, present = obj[string(fd.Name())]
						}
						if fd.Kind() == protoreflect.EnumKind && !fd.IsList() && !fd.IsMap() && present && v != nil && fd.Enum().FullName() != "google.protobuf.NullValue" {
							_, isNum := v.(json.Number)
							declared := fd.Enum().Values().ByNumber(d.Get(fd).Enum()) != nil
							if isNum != enumNums && declared {
								viol("enum-representation", fmt.Sprintf("enum field %s rendered as number=%v with useEnumNumbers=%v", fd.Name(), isNum, enumNums), js)
							}
						}
						if !fd.HasPresence() && !fd.IsList() && !fd.IsMap() && !d.Has(fd) {
							if present != emitZero {
								viol("zero-values", fmt.Sprintf("zero-valued field %s present=%v with includeZeroValues=%v", fd.Name(), present, emitZero), js)
							}
						}
					}
				}
				// round trip through the adapter and through the owning runtime's decoder
				sameAs := func(x any) bool {
					dd, err := t.pkg.ToDynamic(x)
					return err == nil && bridge.Equal(dd, d)
				}
				back := t.pkg.New(t.md.FullName())
				evals++
				var uerr error
				if pi := monitor.Try(func() { uerr = csproto.JSONUnmarshaler(back).UnmarshalJSON(out) }); pi != nil {
					viol("unmarshal-panic:"+pi.Frame, "JSONUnmarshaler panicked: "+pi.Value, js)
				} else if uerr != nil || !sameAs(back) {
					viol("adapter-roundtrip", fmt.Sprintf("JSONUnmarshaler does not restore the message from the adapter's own output (err=%v)", uerr), js)
				}
				back2 := t.pkg.New(t.md.FullName())
				evals++
				if err := runtimeJSONUnmarshal(t.pkg.Flavour, out, back2); err != nil || !sameAs(back2) {
					viol("runtime-decoder-roundtrip", fmt.Sprintf("the owning runtime's JSON decoder does not restore the message from the adapter's output (err=%v)", err), js)
				}
				// unknown keys
				if obj, ok := tree.(map[string]any); ok && oi < 2 {
					obj["zzUnknownKeyForVerif"] = json.Number("1")
					withUnknown, _ := json.Marshal(obj)
					for _, allow := range []bool{false, true} {
						evals++
						b3 := t.pkg.New(t.md.FullName())
						uopts := []csproto.JSONOption{csproto.JSONAllowUnknownFields(allow)}
						if ci%3 == 0 {
							uopts = []csproto.JSONOption{csproto.JSONAllowUnknownFields(!allow), csproto.JSONAllowUnknownFields(allow)} // the last one counts
						}
						if ci%2 == 0 {
							// ... and the options of the marshaling side have none on unmarshaling
							uopts = append(uopts, csproto.JSONUseEnumNumbers(!allow), csproto.JSONIncludeZeroValues(!allow), csproto.JSONIndent(" "))
						}
						err := csproto.JSONUnmarshaler(b3, uopts...).UnmarshalJSON(withUnknown)
						if (err == nil) != allow {
							viol(fmt.Sprintf("unknown-keys:allow=%v", allow), fmt.Sprintf("JSON with an unknown key: err=%v with allowUnknownFields=%v", err, allow), map[string]any{"json": string(clipJSON(withUnknown))})
						} else if allow && !sameAs(b3) {
							viol("unknown-keys:value", "message decoded from JSON with an unknown key differs from the original", nil)
						}
					}
					delete(obj, "zzUnknownKeyForVerif")
					// missing required (documented for Google V2 proto2 only)
					if t.pkg.Flavour == "gv2" {
						for i := 0; i < t.md.Fields().Len(); i++ {
							fd := t.md.Fields().Get(i)
							if fd.Cardinality() != protoreflect.Required {
								continue
							}
							if _, ok := obj[fd.JSONName()]; !ok {
								continue
							}
							saved := obj[fd.JSONName()]
							delete(obj, fd.JSONName())
							partial, _ := json.Marshal(obj)
							obj[fd.JSONName()] = saved
							for _, allow := range []bool{false, true} {
								evals++
								popts := []csproto.JSONOption{csproto.JSONAllowPartialMessages(allow)}
								if ci%3 == 0 {
									popts = []csproto.JSONOption{csproto.JSONAllowPartialMessages(!allow), csproto.JSONAllowPartialMessages(allow)} // the last one counts
								}
								if ci%2 == 1 {
									popts = append(popts, csproto.JSONIncludeZeroValues(!allow), csproto.JSONUseEnumNumbers(!allow))
								}
								err := csproto.JSONUnmarshaler(t.pkg.New(t.md.FullName()), popts...).UnmarshalJSON(partial)
								if (err == nil) != allow {
									viol(fmt.Sprintf("missing-required:allow=%v", allow), fmt.Sprintf("JSON lacking required field %s: err=%v with allowPartial=%v", fd.Name(), err, allow), nil)
								}
							}
							break
						}
					}
				}
				if len(bridge.SortedFieldNumbers(d.ProtoReflect())) > 0 {
					classes[fmt.Sprintf("%s/%s/%s/%s", t.pkg.Flavour, t.md.Name(), optKey, c.Class)]++
				}
				if res.WantSample() && ci == 3 && oi == 3 {
					res.Sample(map[string]any{"package": t.pkg.GoPkg, "message": string(t.md.FullName()), "options": optKey, "json": string(clipJSON(out))})
				}
			}
		}
	}
	// well-known types as root messages
	evals += runC18WKT(cfg, res, classes)
	evals += runC18GogoImportedEnum(cfg, res, classes)
	// nil handling
	if cfg.shard == 0 {
		evals += 2
		if b, err := csproto.JSONMarshaler(nil).MarshalJSON(); b != nil || err != nil {
			res.Violate("C18:nil:marshal", fmt.Sprintf("JSONMarshaler(nil) returned (%q, %v), documented (nil, nil)", b, err), nil)
		}
		if err := csproto.JSONUnmarshaler(nil).UnmarshalJSON([]byte("{}")); err == nil {
			res.Violate("C18:nil:unmarshal", "JSONUnmarshaler(nil) returned no error", nil)
		}
		// typed nil pointers of well-known types (some of them implement json.Marshaler/Unmarshaler themselves)
		for _, typedNil := range []any{(*structpb.Struct)(nil), (*structpb.Value)(nil), (*structpb.ListValue)(nil), (*timestamppb.Timestamp)(nil),
			(*durationpb.Duration)(nil), (*wrapperspb.StringValue)(nil), (*emptypb.Empty)(nil), (*fieldmaskpb.FieldMask)(nil),
			(*gogotypes.Struct)(nil), (*gogotypes.Value)(nil), (*gogotypes.ListValue)(nil), (*gogotypes.Timestamp)(nil), (*gogotypes.StringValue)(nil)} {
			evals += 2
			name := fmt.Sprintf("%T", typedNil)
			pi := monitor.Try(func() {
				if b, err := csproto.JSONMarshaler(typedNil).MarshalJSON(); b != nil || err != nil {
					res.Violate("C18:nil:marshal-typed-wkt", fmt.Sprintf("JSONMarshaler(nil %s) returned (%q, %v), documented (nil, nil)", name, b, err), map[string]any{"type": name})
				}
			})
			if pi != nil {
				res.Violate("C18:nil:panic-wkt:marshal", fmt.Sprintf("JSONMarshaler panicked on a nil %s: %s", name, pi.Value), map[string]any{"type": name})
			}
			pi = monitor.Try(func() {
				for _, text := range []string{"{}", "null", "[]", `"x"`} {
					if err := csproto.JSONUnmarshaler(typedNil).UnmarshalJSON([]byte(text)); err == nil {
						res.Violate("C18:nil:unmarshal-typed-wkt", fmt.Sprintf("JSONUnmarshaler(nil %s) returned no error for %s", name, text), map[string]any{"type": name})
					}
				}
			})
			if pi != nil {
				res.Violate("C18:nil:panic-wkt:unmarshal", fmt.Sprintf("JSONUnmarshaler panicked on a nil %s: %s", name, pi.Value), map[string]any{"type": name})
			}
			classes["nil-wkt/"+name]++
		}
		for _, t := range cfg.targets(false) {
			typedNil := reflect.Zero(reflect.TypeOf(t.pkg.New(t.md.FullName()))).Interface()
			evals += 2
			pi := monitor.Try(func() {
				if b, err := csproto.JSONMarshaler(typedNil).MarshalJSON(); b != nil || err != nil {
					res.Violate("C18:nil:marshal-typed:"+t.pkg.Flavour, fmt.Sprintf("JSONMarshaler(typed nil) returned (%q, %v)", b, err), nil)
				}
				if err := csproto.JSONUnmarshaler(typedNil).UnmarshalJSON([]byte("{}")); err == nil {
					res.Violate("C18:nil:unmarshal-typed:"+t.pkg.Flavour, "JSONUnmarshaler(typed nil) returned no error", nil)
				}
			})
			if pi != nil {
				res.Violate("C18:nil:panic:"+t.pkg.Flavour, "JSON adapter panicked on a typed nil message: "+pi.Value, nil)
			}
			classes["nil/"+t.pkg.Flavour]++
			break
		}
	}
	res.Eval(evals)
	res.MergeClasses(classes)
}

func clipJSON(b []byte) []byte {
	if len(b) > 1200 {
		return b[:1200]
	}
	return b
}

// fixWKT makes well-known-type sub-messages valid for the JSON mapping (range-limited Timestamp and
// Duration, no Any payloads): the JSON mapping is only defined for such values.
func fixWKT(m protoreflect.Message, depth int) {
	if depth > 8 {
		return
	}
	md := m.Descriptor()
	if md.ParentFile() != nil && md.ParentFile().Package() == "google.protobuf" {
		sec, nan := md.Fields().ByName("seconds"), md.Fields().ByName("nanos")
		switch md.Name() {
		case "Timestamp":
			s := m.Get(sec).Int() % 253402300799
			if s < 0 {
				s = -s
			}
			m.Set(sec, protoreflect.ValueOfInt64(s))
			n := m.Get(nan).Int() % 1000000000
			if n < 0 {
				n = -n
			}
			m.Set(nan, protoreflect.ValueOfInt32(int32(n)))
		case "Duration":
			s := m.Get(sec).Int() % 9000000000 // gogo and golang jsonpb go through time.Duration (about 292 years)
			n := m.Get(nan).Int() % 1000000000
			if (s < 0 && n > 0) || (s > 0 && n < 0) {
				n = -n
			}
			m.Set(sec, protoreflect.ValueOfInt64(s))
			m.Set(nan, protoreflect.ValueOfInt32(int32(n)))
		case "Any":
			m.Clear(md.Fields().ByName("type_url"))
			m.Clear(md.Fields().ByName("value"))
		}
		m.SetUnknown(nil)
		return
	}
	m.Range(func(fd protoreflect.FieldDescriptor, v protoreflect.Value) bool {
		switch {
		case fd.IsMap() && fd.MapValue().Kind() == protoreflect.MessageKind:
			v.Map().Range(func(_ protoreflect.MapKey, mv protoreflect.Value) bool { fixWKT(mv.Message(), depth+1); return true })
		case fd.IsList() && fd.Kind() == protoreflect.MessageKind:
			for i := 0; i < v.List().Len(); i++ {
				fixWKT(v.List().Get(i).Message(), depth+1)
			}
		case !fd.IsList() && !fd.IsMap() && fd.Kind() == protoreflect.MessageKind:
			fixWKT(v.Message(), depth+1)
		}
		return true
	})
}

var jsonTricky = []string{"C:\\protos\\", "Doe, John", "k:  v", "\"quoted\"", "tail\\\\", "a, b:  c", "{\"x\": 1}", "[1, 2]", "back\\", ", ", "null", ":  "}

// trickyStrings overwrites every string value of m (fields, list elements, map values; recursively, in field
// number order) with the next entry of jsonTricky; returns how many it set. Well-known types are left alone.
func trickyStrings(m protoreflect.Message, next *int, depth int) int {
	if depth > 4 || m.Descriptor().ParentFile().Package() == "google.protobuf" {
		return 0
	}
	n := 0
	take := func() protoreflect.Value {
		v := jsonTricky[*next%len(jsonTricky)]
		*next++
		n++
		return protoreflect.ValueOfString(v)
	}
	fds := m.Descriptor().Fields()
	for i := 0; i < fds.Len(); i++ {
		fd := fds.Get(i)
		if !m.Has(fd) {
			continue
		}
		switch {
		case fd.IsMap():
			mp := m.Mutable(fd).Map()
			var keys []protoreflect.MapKey
			mp.Range(func(k protoreflect.MapKey, _ protoreflect.Value) bool { keys = append(keys, k); return true })
			for _, k := range keys {
				if fd.MapValue().Kind() == protoreflect.StringKind {
					mp.Set(k, take())
				} else if fd.MapValue().Kind() == protoreflect.MessageKind {
					n += trickyStrings(mp.Get(k).Message(), next, depth+1)
				}
			}
		case fd.IsList():
			l := m.Mutable(fd).List()
			for k := 0; k < l.Len() && k < 8; k++ {
				if fd.Kind() == protoreflect.StringKind {
					l.Set(k, take())
				} else if fd.Kind() == protoreflect.MessageKind {
					n += trickyStrings(l.Get(k).Message(), next, depth+1)
				}
			}
		case fd.Kind() == protoreflect.StringKind:
			m.Set(fd, take())
		case fd.Kind() == protoreflect.MessageKind:
			n += trickyStrings(m.Mutable(fd).Message(), next, depth+1)
		}
	}
	return n
}

// deepChains returns, for a message type with a field of its own type, values nested depth levels deep: one chain
// through the first singular such field and one through the first repeated one.
func deepChains(md protoreflect.MessageDescriptor, depth int) []*dynamicpb.Message {
	var out []*dynamicpb.Message
	var single, list protoreflect.FieldDescriptor
	for i := 0; i < md.Fields().Len(); i++ {
		fd := md.Fields().Get(i)
		if fd.Message() == nil || fd.Message().FullName() != md.FullName() || fd.IsMap() {
			continue
		}
		if fd.IsList() && list == nil {
			list = fd
		} else if !fd.IsList() && single == nil && fd.ContainingOneof() == nil {
			single = fd
		}
	}
	for _, fd := range []protoreflect.FieldDescriptor{single, list} {
		if fd == nil {
			continue
		}
		cur := minimalComplete(md, 0)
		for i := 0; i < md.Fields().Len(); i++ {
			if f := md.Fields().Get(i); f.Kind() == protoreflect.StringKind && !f.IsList() && !f.IsMap() && f.ContainingOneof() == nil {
				cur.Set(f, protoreflect.ValueOfString("leaf"))
				break
			}
		}
		for l := 1; l < depth; l++ {
			parent := minimalComplete(md, 0)
			if fd.IsList() {
				parent.Mutable(fd).List().Append(protoreflect.ValueOfMessage(cur.ProtoReflect()))
			} else {
				parent.Set(fd, protoreflect.ValueOfMessage(cur.ProtoReflect()))
			}
			cur = parent
		}
		out = append(out, cur)
	}
	return out
}

// twinsOf returns empty instances of the message types generated from the same schema and options for the other runtimes:
// their Go package name and type name - hence what %T prints - equal those of t's type.
func twinsOf(cfg *config, t target) []any {
	rel := strings.TrimPrefix(string(t.md.FullName()), string(t.md.ParentFile().Package())+".")
	var out []any
	for _, p := range cfg.pkgs {
		if p == t.pkg || p.Unit != t.pkg.Unit || p.OptKey != t.pkg.OptKey || p.Flavour == t.pkg.Flavour {
			continue
		}
		for _, md := range p.Msgs {
			if strings.TrimPrefix(string(md.FullName()), string(md.ParentFile().Package())+".") == rel {
				out = append(out, p.New(md.FullName()))
			}
		}
	}
	return out
}
