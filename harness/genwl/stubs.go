package genwl

import (
	"encoding/json"
	"fmt"
	"os"
	"strings"

	"verifharness/monitor"
)

// runReplay re-runs the property's workload restricted to the (package, message type) named by a replay
// record. Every case list is a pure function of (seed, property, package, message type), so the cases that
// produced the recorded violation are regenerated exactly; the run then reports whether the recorded
// signature shows up again and prints the witnesses (panic stacks included).
func runReplay(cfg *config, res *monitor.Result, dispatch func()) {
	raw, err := os.ReadFile(cfg.replay)
	if err != nil {
		res.Inconc("replay: " + err.Error())
		return
	}
	var rec struct {
		Sig     string         `json:"sig"`
		What    string         `json:"what"`
		Witness map[string]any `json:"witness"`
	}
	if err := json.Unmarshal(raw, &rec); err != nil {
		res.Inconc("replay: " + err.Error())
		return
	}
	pkg, _ := rec.Witness["package"].(string)
	msg, _ := rec.Witness["message"].(string)
	if pkg != "" {
		found := false
		for _, p := range cfg.pkgs {
			found = found || p.GoPkg == pkg
		}
		if !found {
			res.Inconc("replay: package " + pkg + " is not part of the corpus generated for this tier/seed")
			return
		}
	}
	cfg.onlyPkg, cfg.onlyMsg = pkg, msg
	if strings.Contains(rec.Sig, ":concurrent:") {
		os.Setenv("VERIF_"+cfg.prop+"_PHASE", "concurrent")
	}
	cfg.shard, cfg.nshard = 0, 1
	fmt.Printf("replay: %s\n  recorded: %s\n  re-running %s restricted to package=%q message=%q (tier=%s seed=%d)\n", rec.Sig, rec.What, cfg.prop, pkg, msg, cfg.tier, cfg.seed)
	dispatch()
	vs := res.SortedViolations()
	hit := false
	for _, v := range vs {
		mark := " "
		if v.Sig == rec.Sig {
			mark, hit = "*", true
		}
		fmt.Printf("  %s %s (x%d)\n      %s\n", mark, v.Sig, v.Count, v.What)
		if v.Sig == rec.Sig {
			w, _ := json.MarshalIndent(v.Witness, "      ", " ")
			if len(w) > 6000 {
				w = append(w[:6000], "..."...)
			}
			fmt.Printf("      witness: %s\n", w)
		}
	}
	switch {
	case hit:
		fmt.Println("replay: the recorded violation REPRODUCES (*)")
	case len(vs) > 0:
		fmt.Println("replay: the recorded signature did not reappear, other violations did")
	default:
		fmt.Println("replay: no violation on this tree")
	}
}
