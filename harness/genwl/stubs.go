package genwl

import "verifharness/monitor"

func runC10(cfg *config, res *monitor.Result)   {}
func runC11(cfg *config, res *monitor.Result)   {}
func runC12(cfg *config, res *monitor.Result)   {}
func runC18(cfg *config, res *monitor.Result)   {}
func runC19(cfg *config, res *monitor.Result)   {}
func runReplay(cfg *config, res *monitor.Result) {}
