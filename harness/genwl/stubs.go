package genwl

import "verifharness/monitor"

func runReplay(cfg *config, res *monitor.Result) {}
