package genwl

import "verifharness/monitor"

func runC18(cfg *config, res *monitor.Result)   {}
func runC19(cfg *config, res *monitor.Result)   {}
func runReplay(cfg *config, res *monitor.Result) {}
