package genwl

import (
	"bytes"
	"fmt"
	"sort"
	"strings"
	"sync/atomic"

	"github.com/CrowdStrike/csproto"
	"google.golang.org/protobuf/reflect/protoreflect"
	"google.golang.org/protobuf/types/dynamicpb"

	"verifharness/bridge"
	"verifharness/monitor"
	"verifharness/valgen"
)

// fastMsg is the method set protoc-gen-fastmarshal generates.
type fastMsg interface {
	Size() int
	Marshal() ([]byte, error)
	MarshalTo([]byte) error
	Unmarshal([]byte) error
}

var truncatedCopies atomic.Int64

func installCopyObserver() {
	fn := func(avail, need int) { truncatedCopies.Add(1) }
	csproto.VerifCopyObserver.Store(&fn)
}

func hasBigMap(m protoreflect.Message) bool {
	big := false
	var walk func(m protoreflect.Message, d int)
	walk = func(m protoreflect.Message, d int) {
		m.Range(func(fd protoreflect.FieldDescriptor, v protoreflect.Value) bool {
			switch {
			case fd.IsMap():
				if v.Map().Len() >= 2 {
					big = true
				}
				if fd.MapValue().Kind() == protoreflect.MessageKind && d < 5 {
					v.Map().Range(func(_ protoreflect.MapKey, mv protoreflect.Value) bool { walk(mv.Message(), d+1); return true })
				}
			case fd.IsList() && fd.Kind() == protoreflect.MessageKind && d < 5:
				for i := 0; i < v.List().Len(); i++ {
					walk(v.List().Get(i).Message(), d+1)
				}
			case fd.Kind() == protoreflect.MessageKind && !fd.IsList() && d < 5:
				walk(v.Message(), d+1)
			}
			return !big
		})
	}
	walk(m, 0)
	return big
}

const frame = 64

// c04Check evaluates Size/Marshal/MarshalTo agreement on fresh structs built from d.
// It returns "" or a failure key, plus a description.
func c04Check(t target, d *dynamicpb.Message) (key, what string) {
	g1, err := build(t, d)
	if err != nil {
		return "harness", err.Error()
	}
	fm, ok := g1.(fastMsg)
	if !ok {
		return "harness", fmt.Sprintf("%T has no fast-marshal methods", g1)
	}
	var sz int
	var b []byte
	var merr error
	before := truncatedCopies.Load()
	if pi := monitor.Try(func() { sz = fm.Size() }); pi != nil {
		return "size-panic:" + monitor.PanicClass(pi.Value), "Size() panicked: " + pi.Value
	}
	if pi := monitor.Try(func() { b, merr = fm.Marshal() }); pi != nil {
		return "marshal-panic:" + monitor.PanicClass(pi.Value), "Marshal() panicked: " + pi.Value
	}
	if merr != nil {
		return "marshal-error", "Marshal() failed on a message with all required fields set: " + merr.Error()
	}
	if truncatedCopies.Load() != before {
		return "truncated-copy", fmt.Sprintf("during Marshal the encoder copied into a buffer with too little room (Size()=%d): the reported size is smaller than what MarshalTo writes", sz)
	}
	if len(b) != sz {
		return "marshal-len-ne-size", fmt.Sprintf("Size()=%d but Marshal() returned %d bytes", sz, len(b))
	}
	// MarshalTo into a caller-supplied buffer of exactly Size() bytes, on a fresh struct, two fills
	g2, err := build(t, d)
	if err != nil {
		return "harness", err.Error()
	}
	fm2 := g2.(fastMsg)
	var sz2 int
	if pi := monitor.Try(func() { sz2 = fm2.Size() }); pi != nil {
		return "size-panic:" + monitor.PanicClass(pi.Value), "Size() panicked: " + pi.Value
	}
	if sz2 != sz {
		return "size-unstable", fmt.Sprintf("two fresh structs with equal contents report sizes %d and %d", sz, sz2)
	}
	arena := make([]byte, sz+2*frame)
	for i := range arena {
		arena[i] = 0xC3
	}
	buf := arena[frame : frame+sz : frame+sz]
	outs := make([][]byte, 2)
	for pass, c := range []byte{0xAA, 0x55} {
		for i := range buf {
			buf[i] = c
		}
		before := truncatedCopies.Load()
		var err error
		if pi := monitor.Try(func() { err = fm2.MarshalTo(buf) }); pi != nil {
			return "marshalto-panic:" + monitor.PanicClass(pi.Value), fmt.Sprintf("MarshalTo(buffer of Size()=%d bytes) panicked: %s", sz, pi.Value)
		}
		if err != nil {
			return "marshalto-error", "MarshalTo failed: " + err.Error()
		}
		if truncatedCopies.Load() != before {
			return "truncated-copy", fmt.Sprintf("MarshalTo copied into a buffer with too little room (Size()=%d)", sz)
		}
		for i := 0; i < frame; i++ {
			if arena[i] != 0xC3 || arena[frame+sz+i] != 0xC3 {
				return "marshalto-overrun", "MarshalTo wrote outside the supplied buffer"
			}
		}
		outs[pass] = append([]byte(nil), buf...)
	}
	if !hasBigMap(d) {
		for i := range outs[0] {
			if outs[0][i] != outs[1][i] {
				return "marshalto-slack", fmt.Sprintf("byte %d of %d of a buffer of Size() bytes was never written by MarshalTo", i, sz)
			}
		}
		if !bytes.Equal(outs[0], b) {
			return "marshalto-ne-marshal", "MarshalTo and Marshal produced different bytes for equal contents"
		}
	}
	return "", ""
}

// c05Check compares the reference parse of the generated Marshal output with the original value.
func c05Check(t target, d *dynamicpb.Message) (items []bridge.DiffItem, fail string, what string) {
	g, err := build(t, d)
	if err != nil {
		return nil, "harness", err.Error()
	}
	fm := g.(fastMsg)
	var b []byte
	var merr error
	if pi := monitor.Try(func() { b, merr = fm.Marshal() }); pi != nil {
		return nil, "marshal-panic:" + monitor.PanicClass(pi.Value), "Marshal() panicked: " + pi.Value
	}
	if merr != nil {
		return nil, "marshal-error", "Marshal() failed: " + merr.Error()
	}
	ref, err := t.pkg.UnmarshalRef(t.md, b, true)
	if err != nil {
		return nil, "reference-rejects-output", fmt.Sprintf("the reference runtime cannot parse the generated Marshal output (%d bytes): %v", len(b), err)
	}
	if bridge.Equal(ref, d) {
		return nil, "", ""
	}
	items = bridge.Diff(d.ProtoReflect(), ref.ProtoReflect())
	if len(items) == 0 {
		return nil, "bytes-differ-only", "reference parse re-encodes differently although no field differs"
	}
	return items, "diff", ""
}

func shapesKey(d *dynamicpb.Message) string {
	return strings.Join(bridge.PopulatedShapes(d.ProtoReflect()), "+")
}

func runC0405(cfg *config, res *monitor.Result) {
	installCopyObserver()
	nrand := 200
	if cfg.thorough() {
		nrand = 1500
	}
	isC04 := cfg.prop == "C04"
	classes := map[string]int64{}
	var evals int64
	for _, t := range cfg.targets(true) {
		g := cfg.gen(t)
		cases := g.Boundary(t.md)
		for i := 0; i < nrand; i++ {
			cases = append(cases, g.Random(t.md))
		}
		selfChecked := false
		for ci, c := range cases {
			cfg.progress.Set(cfg.prop, t.pkg.GoPkg, string(t.md.FullName()), c.Class, c.Field)
			// bridge self-check on the first few cases of every type: struct -> dynamic must reproduce the value
			if ci < 40 || !selfChecked {
				if gg, err := build(t, c.Msg); err != nil {
					res.Inconc(fmt.Sprintf("bridge cannot build %s (%s): %v", t.md.FullName(), t.pkg.GoPkg, err))
					break
				} else if back, err := t.pkg.ToDynamic(gg); err != nil || !bridge.Equal(back, c.Msg) {
					res.Inconc(fmt.Sprintf("bridge round trip differs for %s (%s) case %s/%s: %v", t.md.FullName(), t.pkg.GoPkg, c.Class, c.Field, err))
					break
				}
				selfChecked = true
			}
			nonTrivial := len(bridge.SortedFieldNumbers(c.Msg.ProtoReflect())) > 0
			// second pass: the same contents held in the "empty but allocated" Go representation
			for pass := 0; pass < 5; pass++ {
				emptyNonNil = pass == 1
				nilElems = pass == 2
				nilMapValues = nilElems && isC04
				extInUnknown = pass == 3
				invalidUTF8 = pass == 4
				repTag := ""
				if invalidUTF8 {
					// strings holding bytes that are not valid UTF-8: Size/Marshal/MarshalTo must still agree (C04 only)
					invalidUTF8Poked = 0
					if !isC04 || (c.Class == "random" && ci%3 != 0) {
						invalidUTF8 = false
						continue
					}
					if _, err := build(t, c.Msg); err != nil || invalidUTF8Poked == 0 {
						invalidUTF8 = false
						continue
					}
					repTag = "invalid-utf8:"
					classes[t.pkg.Flavour+"/"+string(t.md.Name())+"/invalid-utf8"]++
				}
				if extInUnknown {
					// the message as code that does not know its extensions left it: extension fields encoded in the unknown fields
					extInUnknownPoked = 0
					if _, err := build(t, c.Msg); err != nil || extInUnknownPoked == 0 {
						extInUnknown = false
						continue
					}
					repTag = "ext-in-unknown:"
					classes[t.pkg.Flavour+"/"+string(t.md.Name())+"/ext-in-unknown"]++
				}
				if emptyNonNil {
					if c.Class == "random" && ci%4 != 0 {
						continue
					}
					repTag = "empty-nonnil:"
				}
				if nilElems {
					// Google V2 only: golang/protobuf V1 and gogo refuse a nil element ("repeated field has nil element"),
					// for them it is not a message value at all.
					if t.pkg.Flavour != "gv2" {
						continue
					}
					// only for values that really hold an empty element in a repeated message field
					nilElemsPoked = 0
					if _, err := build(t, c.Msg); err != nil || nilElemsPoked == 0 {
						continue
					}
					repTag = "nil-elements:"
					classes[t.pkg.Flavour+"/"+string(t.md.Name())+"/nil-elements"]++
				}
				evals++
				if isC04 {
					key, what := c04Check(t, c.Msg)
					if key == "harness" {
						res.Inconc(what)
						continue
					}
					if key != "" {
						budgetKey := sigFlav(t) + "/" + repTag + key + "/" + shapesKey(c.Msg)
						if shrinkBudget[budgetKey] >= 1 {
							res.Violate(shrinkSig[budgetKey], "", nil)
							continue
						}
						shrinkBudget[budgetKey]++
						min := shrink(c.Msg, key, func(m *dynamicpb.Message) string { k, _ := c04Check(t, m); return k })
						_, what2 := c04Check(t, min)
						if what2 != "" {
							what = what2
						}
						sig := fmt.Sprintf("C04:%s:%s%s:%s", sigFlav(t), repTag, key, shapesKey(min))
						shrinkSig[budgetKey] = sig
						res.Violate(sig, fmt.Sprintf("%s (%s): %s", t.md.FullName(), t.pkg.GoPkg, what), witness(t, min, c))
					}
				} else {
					items, fail, what := c05Check(t, c.Msg)
					switch fail {
					case "":
					case "harness":
						res.Inconc(what)
					case "diff":
						seen := map[string]bool{}
						for _, it := range items {
							k := it.String()
							if it.InWKT && t.pkg.Flavour == "gogo" {
								continue // decoded/encoded by gogo's own code for its well-known types
							}
							if seen[k] {
								continue
							}
							seen[k] = true
							budgetKey := sigFlav(t) + "/" + repTag + k
							if shrinkBudget[budgetKey] >= 2 {
								res.Violate(shrinkSig[budgetKey], "", nil)
								continue
							}
							shrinkBudget[budgetKey]++
							min := shrink(c.Msg, k, func(m *dynamicpb.Message) string {
								its, _, _ := c05Check(t, m)
								for _, x := range its {
									if x.String() == k {
										return k
									}
								}
								return ""
							})
							sig := fmt.Sprintf("C05:%s:%s%s", sigFlav(t), repTag, k)
							if ms := shapesKey(min); ms != it.Shape && it.Kind != "phantom" {
								// the differing field alone does not explain it: keep the co-populated shapes in the signature
								sig += ":with:" + ms
							}
							shrinkSig[budgetKey] = sig
							w := witness(t, min, c)
							w["diff_path"] = it.Path
							w["diff_note"] = it.Note
							res.Violate(sig, fmt.Sprintf("%s (%s): reference parse of Marshal output: field %s %s %s", t.md.FullName(), t.pkg.GoPkg, it.Path, it.Kind, it.Note), w)
						}
					default:
						budgetKey := sigFlav(t) + "/" + repTag + fail + "/" + shapesKey(c.Msg)
						if shrinkBudget[budgetKey] >= 1 {
							res.Violate(shrinkSig[budgetKey], "", nil)
							continue
						}
						shrinkBudget[budgetKey]++
						min := shrink(c.Msg, fail, func(m *dynamicpb.Message) string { _, f, _ := c05Check(t, m); return f })
						sig := fmt.Sprintf("C05:%s:%s%s:%s", sigFlav(t), repTag, fail, shapesKey(min))
						shrinkSig[budgetKey] = sig
						res.Violate(sig, fmt.Sprintf("%s (%s): %s", t.md.FullName(), t.pkg.GoPkg, what), witness(t, min, c))
					}
				}
			}
			emptyNonNil, nilElems, nilMapValues, extInUnknown, invalidUTF8 = false, false, false, false, false
			if nonTrivial {
				cls := c.Class
				if c.Field != "" {
					cls = c.Field + "/" + c.Class
				} else if c.Class == "random" {
					cls = "random/" + shapeClass(c.Msg)
				}
				classes[t.pkg.GoPkg+"/"+string(t.md.Name())+"/"+cls]++
			}
			if res.WantSample() && ci == 5 {
				res.Sample(map[string]any{"package": t.pkg.GoPkg, "message": string(t.md.FullName()), "case": c.Class, "field": c.Field, "value": bridge.Text(c.Msg)})
			}
		}
	}
	res.Eval(evals)
	res.MergeClasses(classes)
}

// shapeClass summarises a random value by the sorted set of populated top-level field numbers (bounded).
func shapeClass(d *dynamicpb.Message) string {
	ns := bridge.SortedFieldNumbers(d.ProtoReflect())
	if len(ns) > 4 {
		ns = ns[:4]
	}
	return fmt.Sprint(ns)
}

func witness(t target, min *dynamicpb.Message, c valgen.Case) map[string]any {
	b, _ := bridge.MarshalRef(min)
	shapes := bridge.PopulatedShapes(min.ProtoReflect())
	sort.Strings(shapes)
	return map[string]any{
		"package": t.pkg.GoPkg, "unit": t.pkg.Unit, "flavour": t.pkg.Flavour, "options": t.pkg.OptKey,
		"message": string(t.md.FullName()), "case": c.Class, "field": c.Field,
		"value": bridge.Text(min), "value_wire_hex": monitor.Hex(b), "shapes": shapes,
	}
}
