package genwl

import (
	"google.golang.org/protobuf/types/dynamicpb"
	"reflect"
	"sort"
	"strconv"
	"strings"
	"verifharness/bridge"

	"google.golang.org/protobuf/proto"
	"google.golang.org/protobuf/reflect/protoreflect"
)

// emptyNonNil switches build to the "empty but allocated" representation of a value: every empty list is a
// non-nil slice of length 0, every empty map an allocated map, every unset bytes field WITHOUT presence
// (plain proto3) a non-nil slice of length 0. These Go states hold the same message contents as nil (the
// runtimes, proto.Equal and Clone treat them alike) and are what ordinary code leaves behind (m.F = m.F[:0],
// make(map...), append([]byte{}, src...)), so every property of the marshal path must hold for them too.
var emptyNonNil bool

// pokeEmpty rewrites nil containers of the generated struct (and of the messages below it) to empty non-nil
// ones; returns how many fields it changed.
func pokeEmpty(pv reflect.Value, md protoreflect.MessageDescriptor, depth int) int {
	if pv.Kind() != reflect.Ptr || pv.IsNil() || pv.Elem().Kind() != reflect.Struct || depth > 6 {
		return 0
	}
	sv := pv.Elem()
	st := sv.Type()
	n := 0
	for i := 0; i < st.NumField(); i++ {
		tag := st.Field(i).Tag.Get("protobuf")
		if tag == "" || !sv.Field(i).CanSet() {
			continue
		}
		parts := strings.Split(tag, ",")
		if len(parts) < 2 {
			continue
		}
		num, err := strconv.Atoi(parts[1])
		if err != nil {
			continue
		}
		fd := md.Fields().ByNumber(protoreflect.FieldNumber(num))
		if fd == nil {
			continue
		}
		fv := sv.Field(i)
		switch {
		case fd.IsMap():
			if fv.Kind() != reflect.Map {
				continue
			}
			if fv.IsNil() {
				fv.Set(reflect.MakeMap(fv.Type()))
				n++
			} else if fd.MapValue().Kind() == protoreflect.MessageKind {
				it := fv.MapRange()
				for it.Next() {
					n += pokeEmpty(it.Value(), fd.MapValue().Message(), depth+1)
				}
			}
		case fd.IsList():
			if fv.Kind() != reflect.Slice {
				continue
			}
			if fv.IsNil() {
				fv.Set(reflect.MakeSlice(fv.Type(), 0, 0))
				n++
			} else if fd.Kind() == protoreflect.MessageKind {
				for k := 0; k < fv.Len(); k++ {
					n += pokeEmpty(fv.Index(k), fd.Message(), depth+1)
				}
			}
		case fd.Kind() == protoreflect.BytesKind:
			if fv.Kind() == reflect.Slice && fv.IsNil() && !fd.HasPresence() {
				fv.Set(reflect.MakeSlice(fv.Type(), 0, 0))
				n++
			}
		case fd.Kind() == protoreflect.MessageKind:
			n += pokeEmpty(fv, fd.Message(), depth+1)
		}
	}
	return n
}

// nilElems switches build to the representation in which every EMPTY message element of a repeated message
// field (an element whose encoding by the owning runtime is zero bytes long) is a nil pointer. protobuf-go reads a nil element as an empty message (and encodes it as a zero-length
// element), so for Google V2 messages the contents are the same as with an allocated empty element; gogo and
// golang/protobuf V1 refuse such a message, the variant is not applied to their types.
var nilElems bool

// nilMapValues additionally turns empty message VALUES of maps into nil pointers (see pokeNilElems).
var nilMapValues bool

// nilElemsPoked counts the elements build() replaced since it was last reset.
var nilElemsPoked int

// pokeNilElems rewrites empty message elements of repeated message fields to nil pointers; returns the count.
func pokeNilElems(pv reflect.Value, md protoreflect.MessageDescriptor, depth int) int {
	if pv.Kind() != reflect.Ptr || pv.IsNil() || pv.Elem().Kind() != reflect.Struct || depth > 6 {
		return 0
	}
	sv := pv.Elem()
	st := sv.Type()
	n := 0
	for i := 0; i < st.NumField(); i++ {
		tag := st.Field(i).Tag.Get("protobuf")
		if tag == "" || !sv.Field(i).CanSet() {
			continue
		}
		parts := strings.Split(tag, ",")
		if len(parts) < 2 {
			continue
		}
		num, err := strconv.Atoi(parts[1])
		if err != nil {
			continue
		}
		fd := md.Fields().ByNumber(protoreflect.FieldNumber(num))
		if fd == nil {
			continue
		}
		fv := sv.Field(i)
		if fd.IsMap() {
			// nil map values: only for the Size/Marshal/MarshalTo agreement check (C04); what a nil map value MEANS
			// is not agreed between the runtimes and csproto (csproto drops the entry), so C05 does not use it
			if nilMapValues && fd.MapValue().Kind() == protoreflect.MessageKind && fv.Kind() == reflect.Map {
				it := fv.MapRange()
				var keys []reflect.Value
				for it.Next() {
					ev := it.Value()
					if ev.Kind() != reflect.Ptr || ev.IsNil() {
						continue
					}
					if pm, ok := ev.Interface().(proto.Message); ok && proto.Size(pm) == 0 && len(pm.ProtoReflect().GetUnknown()) == 0 {
						keys = append(keys, it.Key())
					}
				}
				for _, k := range keys {
					fv.SetMapIndex(k, reflect.Zero(fv.Type().Elem()))
					n++
				}
			}
			continue
		}
		if fd.Kind() != protoreflect.MessageKind {
			continue
		}
		switch {
		case fd.IsList():
			if fv.Kind() != reflect.Slice {
				continue
			}
			for k := 0; k < fv.Len(); k++ {
				ev := fv.Index(k)
				if ev.Kind() != reflect.Ptr || ev.IsNil() {
					continue
				}
				if pm, ok := ev.Interface().(proto.Message); ok && proto.Size(pm) == 0 && len(pm.ProtoReflect().GetUnknown()) == 0 {
					ev.Set(reflect.Zero(ev.Type()))
					n++
				} else {
					n += pokeNilElems(ev, fd.Message(), depth+1)
				}
			}
		default:
			n += pokeNilElems(fv, fd.Message(), depth+1)
		}
	}
	return n
}

// extInUnknown switches build to the representation a message has after it was decoded by code that did not know its
// extensions: the (top-level) extension fields of the value are not set through the API but sit, encoded, in the
// unknown fields. extInUnknownPoked counts the builds in which that changed something.
var (
	extInUnknown      bool
	extInUnknownPoked int
)

// splitExtensions returns a copy of d without its top-level extension fields, and their reference encoding.
func splitExtensions(d *dynamicpb.Message) (*dynamicpb.Message, []byte) {
	rest := cloneDyn(d)
	var raw []byte
	var exts []protoreflect.FieldDescriptor
	d.ProtoReflect().Range(func(fd protoreflect.FieldDescriptor, v protoreflect.Value) bool {
		if fd.IsExtension() {
			exts = append(exts, fd)
		}
		return true
	})
	sort.Slice(exts, func(i, j int) bool { return exts[i].Number() < exts[j].Number() })
	for _, fd := range exts {
		one := dynamicpb.NewMessage(d.Descriptor())
		one.Set(fd, d.Get(fd))
		b, err := bridge.MarshalRef(one)
		if err != nil {
			return d, nil
		}
		raw = append(raw, b...)
		rest.Clear(fd)
	}
	return rest, raw
}

// invalidUTF8 switches build to string values that are not valid UTF-8 (every set string of the top-level message and of
// the messages below it gets bytes appended that do not form a code point). Go strings hold arbitrary bytes; what a
// generated Size() counts and what MarshalTo writes must agree for them as well (C04 only - the reference runtimes
// refuse such proto3 strings, so there is nothing to compare the output with).
var (
	invalidUTF8      bool
	invalidUTF8Poked int
)

var invalidTails = []string{"\xe9", "\xc3", "\xff\xfe", "\xe2\x82", "\xf0\x9f\x98\xed\xa0"}

func pokeInvalidUTF8(pv reflect.Value, depth int) int {
	// only the strings of the message itself: messages below it may belong to a runtime that validates UTF-8 when it
	// marshals them (gogo and protobuf-go do for proto3), which is then the correct outcome
	if pv.Kind() != reflect.Ptr || pv.IsNil() || pv.Elem().Kind() != reflect.Struct || depth > 0 {
		return 0
	}
	sv := pv.Elem()
	st := sv.Type()
	n := 0
	for i := 0; i < st.NumField(); i++ {
		if st.Field(i).Tag.Get("protobuf") == "" || !sv.Field(i).CanSet() {
			continue
		}
		fv := sv.Field(i)
		tail := invalidTails[(i+depth)%len(invalidTails)]
		switch fv.Kind() {
		case reflect.String:
			if fv.Len() > 0 {
				fv.SetString(fv.String() + tail)
				n++
			}
		case reflect.Ptr:
			if fv.IsNil() {
				continue
			}
			if fv.Elem().Kind() == reflect.String {
				fv.Elem().SetString(fv.Elem().String() + tail)
				n++
			} else {
				n += pokeInvalidUTF8(fv, depth+1)
			}
		case reflect.Slice:
			for k := 0; k < fv.Len(); k++ {
				ev := fv.Index(k)
				if ev.Kind() == reflect.String {
					ev.SetString(ev.String() + tail)
					n++
				} else if ev.Kind() == reflect.Ptr {
					n += pokeInvalidUTF8(ev, depth+1)
				}
			}
		case reflect.Map:
			if fv.Type().Elem().Kind() == reflect.String {
				it := fv.MapRange()
				var keys []reflect.Value
				for it.Next() {
					keys = append(keys, it.Key())
				}
				for _, k := range keys {
					fv.SetMapIndex(k, reflect.ValueOf(fv.MapIndex(k).String()+tail).Convert(fv.Type().Elem()))
					n++
				}
			} else if fv.Type().Elem().Kind() == reflect.Ptr {
				it := fv.MapRange()
				for it.Next() {
					n += pokeInvalidUTF8(it.Value(), depth+1)
				}
			}
		}
	}
	return n
}
