package genwl

import (
	"errors"
	"fmt"
	"runtime/metrics"

	"google.golang.org/protobuf/reflect/protoreflect"

	"verifharness/bridge"
	"verifharness/monitor"
	"verifharness/refwire"
)

// C08: generated Unmarshal is total on arbitrary bytes; when both it and the reference accept an input
// the decoded messages are equal.

var mutBytes = []byte{0x00, 0x01, 0x02, 0x05, 0x07, 0x08, 0x7f, 0x80, 0xff}

type allocMeter struct{ s [1]metrics.Sample }

func (a *allocMeter) read() uint64 {
	a.s[0].Name = "/gc/heap/allocs:bytes"
	metrics.Read(a.s[:])
	return a.s[0].Value.Uint64()
}

// lengthPrefixes returns the offsets and lengths of the length varints of all length-delimited fields,
// descending into payloads that parse as messages.
func lengthPrefixes(b []byte, base int, depth int, out *[][2]int) {
	fs, err := refwire.Walk(b)
	if err != nil {
		return
	}
	for _, f := range fs {
		if f.WT != refwire.WTLen {
			continue
		}
		p := f.Start + f.KeyLen
		n := f.End - len(f.Payload) - p
		*out = append(*out, [2]int{base + p, n})
		if depth < 3 && len(f.Payload) > 1 {
			lengthPrefixes(f.Payload, base+f.End-len(f.Payload), depth+1, out)
		}
	}
}

func runC08(cfg *config, res *monitor.Result) {
	ntrees := 16
	nrandom := 300
	if cfg.thorough() {
		ntrees = 120
		nrandom = 20000
	}
	classes := map[string]int64{}
	var evals int64
	meter := &allocMeter{}
	for _, t := range cfg.targets(true) {
		g := cfg.gen(t)
		r := monitor.NewRand(cfg.seed, "c08", t.pkg.GoPkg, string(t.md.FullName()))
		judge := func(family string, b []byte, measure bool) {
			evals++
			cfg.progress.Set("C08", t.pkg.GoPkg, string(t.md.FullName()), family, monitor.Hex(b))
			dst := t.pkg.New(t.md.FullName()).(fastMsg)
			var uerr error
			var before uint64
			if measure {
				before = meter.read()
			}
			pi := monitor.Try(func() { uerr = dst.Unmarshal(b) })
			var alloc uint64
			if measure {
				alloc = meter.read() - before
			}
			wit := func() map[string]any {
				return map[string]any{"package": t.pkg.GoPkg, "message": string(t.md.FullName()), "mutation": family, "input_hex": monitor.Hex(b), "input_len": len(b)}
			}
			if pi != nil {
				res.Violate(fmt.Sprintf("C08:%s:panic:%s:%s", sigFlav(t), pi.Frame, monitor.PanicClass(pi.Value)),
					fmt.Sprintf("%s (%s): Unmarshal panicked on %s input: %s", t.md.FullName(), t.pkg.GoPkg, family, pi.Value), wit())
				return
			}
			if measure {
				limit := uint64(256*len(b) + 256<<10) // linear with a generous constant, see wl-wire/total.go (span accounting noise)
				if alloc > limit {
					min := alloc
					for i := 0; i < 4; i++ {
						d2 := t.pkg.New(t.md.FullName()).(fastMsg)
						b0 := meter.read()
						_ = monitor.Try(func() { _ = d2.Unmarshal(b) })
						if a := meter.read() - b0; a < min {
							min = a
						}
					}
					if min > limit {
						w := wit()
						w["allocated"] = min
						res.Violate(fmt.Sprintf("C08:%s:allocation:%s", sigFlav(t), family),
							fmt.Sprintf("%s (%s): Unmarshal allocated %d bytes for a %d-byte input (limit %d)", t.md.FullName(), t.pkg.GoPkg, min, len(b), limit), w)
					}
				}
			}
			ref, rerr := t.pkg.UnmarshalRef(t.md, b, true)
			if errors.Is(rerr, bridge.ErrReferencePanic) {
				res.Extra("reference_runtime_panics", 1)
			}
			outcome := "both-reject"
			switch {
			case uerr == nil && rerr == nil:
				outcome = "both-accept"
			case uerr == nil:
				outcome = "only-generated-accepts"
			case rerr == nil:
				outcome = "only-reference-accepts"
			}
			classes[fmt.Sprintf("%s/%s/%s/%s", t.pkg.GoPkg, t.md.Name(), family, outcome)]++
			if uerr != nil || rerr != nil {
				return
			}
			got, err := t.pkg.ToDynamic(dst)
			if err != nil {
				res.Inconc("ToDynamic: " + err.Error())
				return
			}
			if bridge.Equal(ref, got) {
				return
			}
			items := bridge.Diff(ref.ProtoReflect(), got.ProtoReflect())
			hint := inputHints(t.pkg, t.md, b, 0)
			seen := map[string]bool{}
			for _, it := range items {
				if (it.InWKT && (t.pkg.Flavour == "gogo" || it.Kind == "unknown-changed")) || (it.Foreign && it.Kind == "unknown-changed") {
					// decoded by gogo's own generated code for its well-known types, not by csproto
					res.Extra("diffs_inside_gogo_wkt_ignored", 1)
					continue
				}
				k := hint + it.String()
				if seen[k] {
					continue
				}
				seen[k] = true
				w := wit()
				w["diff_path"], w["diff_note"] = it.Path, it.Note
				w["reference"], w["generated"] = bridge.Text(ref), bridge.Text(got)
				res.Violate(fmt.Sprintf("C08:%s:disagree:%s", sigFlav(t), k),
					fmt.Sprintf("%s (%s): both decoders accept a %s input but disagree: field %s %s %s", t.md.FullName(), t.pkg.GoPkg, family, it.Path, it.Kind, it.Note), w)
			}
		}
		for ti := 0; ti < ntrees; ti++ {
			var d = g.Random(t.md).Msg
			if ti == 0 {
				bc := g.Boundary(t.md)
				d = bc[len(bc)/2].Msg
			}
			valid, err := bridge.MarshalRef(d)
			if err != nil || len(valid) == 0 {
				continue
			}
			if len(valid) > 4096 {
				valid = valid[:4096] // long strings add nothing here
			}
			step := 1
			if len(valid) > 200 {
				step = len(valid) / 100
			}
			// truncation
			for off := 0; off < len(valid); off += step {
				judge("truncation", valid[:off], false)
			}
			// single-byte mutation
			for off := 0; off < len(valid); off += step {
				for _, mb := range mutBytes {
					if valid[off] == mb {
						continue
					}
					m := append([]byte(nil), valid...)
					m[off] = mb
					judge("byte-mutation", m, (off+int(mb))%8 == 0)
				}
				// bit flips of the low three bits (wire type) and the continuation bit
				for _, x := range []byte{1, 2, 4, 0x80} {
					m := append([]byte(nil), valid...)
					m[off] ^= x
					judge("bit-flip", m, false)
				}
			}
			// length-prefix inflation
			var prefixes [][2]int
			lengthPrefixes(valid, 0, 0, &prefixes)
			for pi, pf := range prefixes {
				if pi > 40 {
					break
				}
				rest := uint64(len(valid) - pf[0] - pf[1])
				for _, decl := range []uint64{rest + 1, 1<<31 - 1, 1 << 31, 1 << 32, 1 << 63, 1<<64 - 1, 1 << 28, 1 << 24} {
					m := append([]byte(nil), valid[:pf[0]]...)
					m = refwire.AppendVarint(m, decl)
					m = append(m, valid[pf[0]+pf[1]:]...)
					judge("length-inflation", m, true)
				}
			}
			if ti == 0 && res.WantSample() {
				res.Sample(map[string]any{"package": t.pkg.GoPkg, "message": string(t.md.FullName()), "valid_encoding_hex": monitor.Hex(valid), "mutations": "truncation at every offset, 9 byte values + 4 bit flips at every offset, 8 inflated lengths at every length prefix"})
			}
		}
		for i := 0; i < nrandom; i++ {
			n := r.Intn(40)
			b := r.Bytes(n)
			if i%3 == 0 {
				// random but structurally plausible: keys of declared fields followed by random payload bytes
				b = b[:0]
				for k := r.Intn(5); k >= 0 && t.md.Fields().Len() > 0; k-- {
					fd := t.md.Fields().Get(r.Intn(t.md.Fields().Len()))
					b = refwire.AppendKey(b, int(fd.Number()), r.Intn(6))
					b = append(b, r.Bytes(r.Intn(12))...)
				}
			}
			judge("random", b, i%4 == 0)
		}
	}
	res.Eval(evals)
	res.MergeClasses(classes)
	_ = protoreflect.Name("")
}

// inputHints names structural features of an accepted input that explain a class of disagreements:
// "[dup-singular-message]" when a singular message field (regular, extension or map-entry value) occurs
// more than once at some level.
func inputHints(pkg *bridge.Pkg, md protoreflect.MessageDescriptor, b []byte, depth int) string {
	fs, err := refwire.Walk(b)
	if err != nil || depth > 6 {
		return ""
	}
	count := map[int]int{}
	for _, f := range fs {
		fd := md.Fields().ByNumber(protoreflect.FieldNumber(f.Num))
		if fd == nil {
			for _, xt := range pkg.Exts[md.FullName()] {
				if int(xt.TypeDescriptor().Number()) == f.Num {
					fd = xt.TypeDescriptor()
				}
			}
		}
		if fd == nil || f.WT != refwire.WTLen || fd.Message() == nil {
			continue
		}
		if !fd.IsList() && !fd.IsMap() {
			count[f.Num]++
			if count[f.Num] > 1 {
				return "[dup-singular-message]"
			}
		}
		sub := fd.Message()
		if fd.IsMap() {
			if fd.MapValue().Message() == nil {
				continue
			}
			efs, err := refwire.Walk(f.Payload)
			if err != nil {
				continue
			}
			nval := 0
			for _, ef := range efs {
				if ef.Num == 2 && ef.WT == refwire.WTLen {
					nval++
					if nval > 1 {
						return "[dup-singular-message]"
					}
					if h := inputHints(pkg, fd.MapValue().Message(), ef.Payload, depth+1); h != "" {
						return h
					}
				}
			}
			continue
		}
		if h := inputHints(pkg, sub, f.Payload, depth+1); h != "" {
			return h
		}
	}
	return ""
}
