package genwl

import (
	"bytes"
	"fmt"
	"google.golang.org/protobuf/reflect/protoreflect"
	"reflect"
	"sort"
	"strings"
	"sync"
	"sync/atomic"
	"time"
	"unsafe"
	"verifharness/refwire"

	"verifharness/bridge"
	"verifharness/monitor"
)

// C10 (generated half): unless unsafe decoding was requested, a message produced by Unmarshal stays
// unchanged when the caller overwrites, truncates or reuses the input buffer.

// aliasScan walks a Go value and reports every non-empty string / []byte whose data pointer lies inside
// [lo, hi).
func aliasScan(v reflect.Value, lo, hi uintptr, path string, out map[string]bool, depth int) {
	if depth > 12 || !v.IsValid() {
		return
	}
	switch v.Kind() {
	case reflect.Ptr, reflect.Interface:
		if !v.IsNil() {
			aliasScan(v.Elem(), lo, hi, path, out, depth+1)
		}
	case reflect.Struct:
		for i := 0; i < v.NumField(); i++ {
			f := v.Type().Field(i)
			if f.Name == "state" || f.Name == "sizeCache" || strings.HasPrefix(f.Name, "XXX_NoUnkeyed") || f.Name == "XXX_sizecache" {
				continue
			}
			aliasScan(v.Field(i), lo, hi, path+"."+f.Name, out, depth+1)
		}
	case reflect.String:
		if v.Len() > 0 {
			p := uintptr(unsafe.Pointer(unsafe.StringData(v.String())))
			if p >= lo && p < hi {
				out["string"+containerOf(path)] = true
			}
		}
	case reflect.Slice:
		if v.Type().Elem().Kind() == reflect.Uint8 {
			if v.Len() > 0 {
				p := v.Pointer()
				if p >= lo && p < hi {
					k := "bytes"
					if strings.HasSuffix(path, "unknownFields") || strings.HasSuffix(path, "XXX_unrecognized") {
						k = "unknown-fields"
					}
					out[k+containerOf(path)] = true
				}
			}
			return
		}
		for i := 0; i < v.Len(); i++ {
			aliasScan(v.Index(i), lo, hi, path+"[]", out, depth+1)
		}
	case reflect.Map:
		it := v.MapRange()
		for it.Next() {
			aliasScan(it.Key(), lo, hi, path+"{key}", out, depth+1)
			aliasScan(it.Value(), lo, hi, path+"{value}", out, depth+1)
		}
	}
}

func containerOf(path string) string {
	switch {
	case strings.HasSuffix(path, "{key}"):
		return "/map-key"
	case strings.HasSuffix(path, "{value}"):
		return "/map-value"
	case strings.HasSuffix(path, "[]"):
		return "/repeated"
	case strings.Count(path, ".") > 1:
		return "/nested"
	}
	return "/field"
}

func runC10(cfg *config, res *monitor.Result) {
	nvals := 25
	if cfg.thorough() {
		nvals = 300
	}
	classes := map[string]int64{}
	var evals int64
	// What other code did with the library before must not matter: types generated WITH enableunsafedecode live in the
	// same process. Before every target they are given (a) an input whose nested message is malformed, so that their
	// Unmarshal fails halfway, and (b) a valid one; a background goroutine keeps decoding valid nested input with them
	// while the default-mode targets are judged.
	type provocation struct {
		t         target
		bad, good []byte
	}
	var provs []provocation
	for _, t := range cfg.targets(true) {
		if !t.pkg.UnsafeDecode || len(provs) >= 6 {
			continue
		}
		for i := 0; i < t.md.Fields().Len(); i++ {
			fd := t.md.Fields().Get(i)
			if fd.Kind() != protoreflect.MessageKind || fd.IsMap() {
				continue
			}
			good, err := bridge.MarshalRef(cfg.gen(t, "c10-provocation").Random(t.md).Msg)
			if err != nil {
				break
			}
			// the nested payload is a key cut off in the middle
			bad := refwire.AppendLen(refwire.AppendKey(nil, int(fd.Number()), refwire.WTLen), []byte{0xFF, 0xFF})
			provs = append(provs, provocation{t: t, bad: bad, good: good})
			break
		}
	}
	provoke := func() {
		for _, p := range provs {
			m := p.t.pkg.New(p.t.md.FullName()).(fastMsg)
			_ = monitor.Try(func() { _ = m.Unmarshal(append([]byte(nil), p.bad...)) })
			m = p.t.pkg.New(p.t.md.FullName()).(fastMsg)
			_ = monitor.Try(func() { _ = m.Unmarshal(append([]byte(nil), p.good...)) })
		}
	}
	stop := make(chan struct{})
	var bg sync.WaitGroup
	var bgDecodes int64
	if len(provs) > 0 {
		bg.Add(1)
		go func() {
			defer bg.Done()
			for {
				select {
				case <-stop:
					return
				default:
				}
				for _, p := range provs {
					m := p.t.pkg.New(p.t.md.FullName()).(fastMsg)
					_ = monitor.Try(func() { _ = m.Unmarshal(append([]byte(nil), p.good...)) })
					atomic.AddInt64(&bgDecodes, 1)
				}
				time.Sleep(50 * time.Microsecond)
			}
		}()
	}
	defer func() {
		close(stop)
		bg.Wait()
		res.Extra("unsafe_decode_provocations_types", int64(len(provs)))
		res.Extra("unsafe_decode_background_decodes", atomic.LoadInt64(&bgDecodes))
	}()
	for _, t := range cfg.targets(true) {
		provoke()
		g := cfg.gen(t)
		cases := g.Boundary(t.md)
		for i := 0; i < nvals; i++ {
			cases = append(cases, g.Random(t.md))
		}
		for ci, c := range cases {
			// valid input with unknown fields at every level so that unknown-field storage is covered too
			enc := &venc{v: &variant{family: "unknown", unknown: true}, r: monitor.NewRand(cfg.seed, "c10", t.pkg.GoPkg, string(t.md.FullName()), ci)}
			valid := enc.message(c.Msg.ProtoReflect(), 0)
			if len(valid) == 0 {
				continue
			}
			buf := make([]byte, len(valid), len(valid))
			copy(buf, valid)
			cfg.progress.Set("C10", t.pkg.GoPkg, string(t.md.FullName()), c.Class, c.Field)
			dst := t.pkg.New(t.md.FullName()).(fastMsg)
			var uerr error
			if pi := monitor.Try(func() { uerr = dst.Unmarshal(buf) }); pi != nil || uerr != nil {
				continue // C06/C08's business
			}
			snapshot := func() []byte {
				d, err := t.pkg.ToDynamic(dst)
				if err != nil {
					return nil
				}
				b, _ := bridge.MarshalRef(d)
				return b
			}
			before := snapshot()
			if before == nil {
				continue
			}
			evals++
			// structural monitor
			found := map[string]bool{}
			lo := uintptr(unsafe.Pointer(&buf[0]))
			aliasScan(reflect.ValueOf(dst), lo, lo+uintptr(len(buf)), "", found, 0)
			var kinds []string
			for k := range found {
				kinds = append(kinds, k)
			}
			sort.Strings(kinds)
			report := func(stage string) {
				what := "contents changed"
				k := "unlocated"
				if len(kinds) > 0 {
					k = strings.Join(kinds, "+")
					what = "aliasing " + k
				}
				if t.pkg.UnsafeDecode && (onlyStrings(kinds) || len(kinds) == 0) {
					// the user opted into unsafe string decoding for this package: expected, shows the monitor fires
					res.Extra("alias_observed_in_unsafe_decode_packages", 1)
					return
				}
				mode := "in default (safe) mode"
				if t.pkg.UnsafeDecode {
					// only strings are covered by the enableunsafedecode opt-in: name the other kinds alone
					var other []string
					for _, kk := range kinds {
						if !onlyStrings([]string{kk}) {
							other = append(other, kk)
						}
					}
					k = strings.Join(other, "+")
					what = "aliasing " + k
					mode = "with enableunsafedecode (which covers strings only)"
				}
				res.Violate(fmt.Sprintf("C10:%s:gen-alias:%s", sigFlav(t), k),
					fmt.Sprintf("%s (%s): message decoded %s shares memory with the caller's buffer (%s): it changed after the caller %s",
						t.md.FullName(), t.pkg.GoPkg, mode, what, stage),
					map[string]any{"package": t.pkg.GoPkg, "message": string(t.md.FullName()), "input_hex": monitor.Hex(valid), "aliased": kinds, "stage": stage, "unsafe_decode_option": t.pkg.UnsafeDecode})
			}
			failed := false
			for pi, stage := range []string{"overwrote the input with 0x00", "overwrote the input with 0xFF", "inverted the input"} {
				for j := range buf {
					switch pi {
					case 0:
						buf[j] = 0
					case 1:
						buf[j] = 0xff
					default:
						buf[j] = ^valid[j]
					}
				}
				evals++
				if after := snapshot(); !bytes.Equal(after, before) {
					report(stage)
					failed = true
					break
				}
			}
			if !failed {
				// reuse the buffer for another decode
				other := cfg.gen(t, "other", ci).Random(t.md).Msg
				ob, _ := bridge.MarshalRef(other)
				if len(ob) > len(buf) {
					ob = ob[:len(buf)]
				}
				copy(buf, ob)
				d2 := t.pkg.New(t.md.FullName()).(fastMsg)
				_ = monitor.Try(func() { _ = d2.Unmarshal(buf[:len(ob)]) })
				evals++
				if after := snapshot(); !bytes.Equal(after, before) {
					report("reused the buffer for another decode")
					failed = true
				}
			}
			if !failed && len(kinds) > 0 {
				// the structural monitor found a pointer into the buffer although no clobber pass changed the value
				// (e.g. the aliased bytes were equal by chance): still an alias
				report("(structural scan only)")
			}
			hasVar := false
			for _, s := range bridge.PopulatedShapes(c.Msg.ProtoReflect()) {
				if strings.Contains(s, "/string/") || strings.Contains(s, "/bytes/") {
					hasVar = true
				}
			}
			if hasVar || enc.unknownAdded > 0 {
				fld := c.Field
				if fld == "" {
					fld = c.Class
				}
				classes[fmt.Sprintf("gen/%s/%s/%s", t.pkg.GoPkg, t.md.Name(), fld)]++
			}
			if res.WantSample() && ci == 4 {
				res.Sample(map[string]any{"package": t.pkg.GoPkg, "message": string(t.md.FullName()), "input_hex": monitor.Hex(valid), "passes": "0x00, 0xFF, inverse, reuse; structural pointer scan"})
			}
		}
	}
	res.Eval(evals)
	res.MergeClasses(classes)
}

func onlyStrings(kinds []string) bool {
	for _, k := range kinds {
		if !strings.HasPrefix(k, "string") {
			return false
		}
	}
	return len(kinds) > 0
}
