package genwl

import (
	"bytes"
	"errors"
	"fmt"
	"google.golang.org/protobuf/encoding/protowire"
	"os"
	"reflect"
	"runtime"
	"strings"
	"sync"
	"sync/atomic"
	"time"

	"github.com/CrowdStrike/csproto"
	gogoproto "github.com/gogo/protobuf/proto"
	golangproto "github.com/golang/protobuf/proto"
	"google.golang.org/protobuf/encoding/prototext"
	"google.golang.org/protobuf/proto"
	"google.golang.org/protobuf/reflect/protoreflect"
	"google.golang.org/protobuf/types/dynamicpb"

	"verifharness/bridge"
	"verifharness/monitor"
)

// C11: the runtime-agnostic API is a transparent, stable dispatcher.

// runtimeOps are the owning runtime's own functions for a flavour.
type runtimeOps struct {
	marshal   func(m any) ([]byte, error)
	size      func(m any) int
	unmarshal func(b []byte, m any) error
	clone     func(m any) any
	equal     func(a, b any) bool
	text      func(m any) string
	class     csproto.MessageType
}

func opsFor(flavour string) runtimeOps {
	switch flavour {
	case "gogo":
		return runtimeOps{
			marshal:   func(m any) ([]byte, error) { return gogoproto.Marshal(m.(gogoproto.Message)) },
			size:      func(m any) int { return gogoproto.Size(m.(gogoproto.Message)) },
			unmarshal: func(b []byte, m any) error { return gogoproto.Unmarshal(b, m.(gogoproto.Message)) },
			clone:     func(m any) any { return gogoproto.Clone(m.(gogoproto.Message)) },
			equal:     func(a, b any) bool { return gogoproto.Equal(a.(gogoproto.Message), b.(gogoproto.Message)) },
			text:      func(m any) string { return gogoproto.MarshalTextString(m.(gogoproto.Message)) },
			class:     csproto.MessageTypeGogo,
		}
	case "gv1":
		return runtimeOps{
			marshal:   func(m any) ([]byte, error) { return golangproto.Marshal(m.(golangproto.Message)) },
			size:      func(m any) int { return golangproto.Size(m.(golangproto.Message)) },
			unmarshal: func(b []byte, m any) error { return golangproto.Unmarshal(b, m.(golangproto.Message)) },
			clone:     func(m any) any { return golangproto.Clone(m.(golangproto.Message)) },
			equal:     func(a, b any) bool { return golangproto.Equal(a.(golangproto.Message), b.(golangproto.Message)) },
			text:      func(m any) string { return golangproto.MarshalTextString(m.(golangproto.Message)) },
			class:     csproto.MessageTypeGoogleV1,
		}
	}
	return runtimeOps{
		marshal:   func(m any) ([]byte, error) { return proto.Marshal(m.(proto.Message)) },
		size:      func(m any) int { return proto.Size(m.(proto.Message)) },
		unmarshal: func(b []byte, m any) error { return proto.Unmarshal(b, m.(proto.Message)) },
		clone:     func(m any) any { return proto.Clone(m.(proto.Message)) },
		equal:     func(a, b any) bool { return proto.Equal(a.(proto.Message), b.(proto.Message)) },
		text:      func(m any) string { return prototext.Format(m.(proto.Message)) },
		class:     csproto.MessageTypeGoogle,
	}
}

func normText(s string) string { return strings.Join(strings.Fields(s), " ") }

type notAMessage struct{ A int }

func runC11(cfg *config, res *monitor.Result) {
	if os.Getenv("VERIF_C11_PHASE") == "concurrent" {
		runC11Concurrent(cfg, res)
		return
	}
	nvals := 12
	if cfg.thorough() {
		nvals = 120
	}
	classes := map[string]int64{}
	var evals int64
	var targets []target
	targets = append(targets, cfg.targets(true)...)
	targets = append(targets, cfg.targets(false)...)
	// first contact: for half of the types (chosen by the seed) the very first value csproto sees in this process is a
	// typed nil pointer, as when a caller passes an unset sub-message on to Clone, Equal or Size. What these calls
	// return is not judged; the classification of the type, and everything that depends on it, is judged below with
	// ordinary values.
	for _, t := range targets {
		r := monitor.NewRand(cfg.seed, "c11-first-contact", t.pkg.GoPkg, string(t.md.FullName()))
		if !r.Bool() {
			continue
		}
		if r.Bool() {
			// the equally named type of another runtime (same schema, same options) is classified before this one
			for _, tw := range twinsOf(cfg, t) {
				_ = monitor.Try(func() { _ = csproto.MsgType(tw) })
				classes["first-contact/twin-of-another-runtime/"+t.pkg.Flavour]++
			}
		}
		typedNil := reflect.Zero(reflect.TypeOf(t.pkg.New(t.md.FullName()))).Interface()
		fn := []string{"MsgType", "Clone", "Equal", "Size", "MarshalText"}[r.Intn(5)]
		_ = monitor.Try(func() {
			switch fn {
			case "MsgType":
				_ = csproto.MsgType(typedNil)
			case "Clone":
				_ = csproto.Clone(typedNil)
			case "Equal":
				_ = csproto.Equal(typedNil, typedNil)
			case "Size":
				_ = csproto.Size(typedNil)
			default:
				_, _ = csproto.MarshalText(typedNil)
			}
		})
		kind := "plain"
		if t.pkg.Fast {
			kind = "fast"
		}
		classes["first-contact/typed-nil/"+t.pkg.Flavour+"/"+kind+"/"+fn]++
	}
	for _, t := range targets {
		ops := opsFor(t.pkg.Flavour)
		kind := "plain"
		if t.pkg.Fast {
			kind = "fast"
		}
		g := cfg.gen(t)
		if t.pkg.Flavour == "gogo" {
			g.NoExt = false
		}
		cases := g.Boundary(t.md)
		if len(cases) > 12 {
			var kept = cases[:0:0]
			step := len(cases) / 12
			for i := 0; i < len(cases); i += step {
				kept = append(kept, cases[i])
			}
			cases = kept
		}
		for i := 0; i < nvals; i++ {
			cases = append(cases, g.Random(t.md))
		}
		// self-recursive types: a chain far deeper than any generated value (the runtimes themselves limit nesting at 10000)
		for _, dc := range deepChains(t.md, 130) {
			tv := g.Random(t.md)
			tv.Msg, tv.Class, tv.Field = dc, "deep-chain-130", ""
			cases = append(cases, tv)
		}
		viol := func(fn, failure, what string, d *dynamicpb.Message) {
			sig := fmt.Sprintf("C11:%s:%s:%s:%s", t.pkg.Flavour, kind, fn, failure)
			res.Violate(sig, fmt.Sprintf("%s (%s): %s", t.md.FullName(), t.pkg.GoPkg, what),
				map[string]any{"package": t.pkg.GoPkg, "message": string(t.md.FullName()), "value": bridge.Text(d)})
		}
		var prevFrame, prevFrameCopy []byte
		for ci, c := range cases {
			d := c.Msg
			cfg.progress.Set("C11", t.pkg.GoPkg, string(t.md.FullName()), c.Class, c.Field)
			gen, err := build(t, d)
			if err != nil {
				res.Inconc(err.Error())
				break
			}
			sameAs := func(x any) bool {
				dd, err := t.pkg.ToDynamic(x)
				return err == nil && bridge.Equal(dd, d)
			}
			pi := monitor.Try(func() {
				// MsgType
				evals++
				if mt := csproto.MsgType(gen); mt != ops.class {
					viol("MsgType", "wrong-class", fmt.Sprintf("MsgType returned %d, expected %d", mt, ops.class), d)
				}
				// Marshal -> runtime Unmarshal and reference parse
				b1, err := csproto.Marshal(gen)
				evals++
				if err != nil {
					viol("Marshal", "error", "csproto.Marshal failed: "+err.Error(), d)
					return
				}
				back := t.pkg.New(t.md.FullName())
				if err := ops.unmarshal(b1, back); err != nil || !sameAs(back) {
					viol("Marshal", "runtime-cannot-read-back", fmt.Sprintf("bytes of csproto.Marshal do not decode to the original with the runtime's Unmarshal (err=%v)", err), d)
				}
				if ref, err := t.pkg.UnmarshalRef(t.md, b1, true); err != nil || !bridge.Equal(ref, d) {
					viol("Marshal", "reference-differs", fmt.Sprintf("bytes of csproto.Marshal do not decode to the original with the reference (err=%v)", err), d)
				}
				// Size
				evals++
				if sz := csproto.Size(gen); sz != len(b1) {
					// is the owning runtime at one with itself on this value? (gogo's generated sizer skips a proto3 -0.0 that
					// gogo's table-driven marshaler writes): if not, its own Size is the yardstick
					fr, _ := build(t, d)
					rsz := ops.size(fr)
					rb, rerr := ops.marshal(fr)
					if own, ok := gen.(interface{ Size() int }); ok && !t.pkg.Fast && own.Size() == sz {
						// a plain type that brings its own Size() method (gogo's sizer plug-in): csproto.Size is documented to use it.
						// gogo's generated sizer and gogo's table-driven marshaler disagree on a proto3 -0.0 (skipped vs written);
						// that is between gogo's two code generators, csproto hands out the type's own answer
						classes["type-own-Size-ne-runtime-marshal-len/"+t.pkg.Flavour+"/"+t.pkg.OptKey]++
					} else if rerr == nil && rsz != len(rb) {
						classes["runtime-size-ne-its-own-marshal-len/"+t.pkg.Flavour+"/"+t.pkg.OptKey]++
						if sz != rsz {
							viol("Size", "ne-runtime-size", fmt.Sprintf("csproto.Size=%d, the owning runtime's Size=%d (its Marshal returns %d bytes)", sz, rsz, len(rb)), d)
						}
					} else {
						viol("Size", "ne-marshal-len", fmt.Sprintf("csproto.Size=%d, csproto.Marshal returned %d bytes", sz, len(b1)), d)
					}
				}
				// runtime Marshal -> csproto.Unmarshal
				fresh, _ := build(t, d)
				b2, err := ops.marshal(fresh)
				if err == nil {
					evals++
					back2 := t.pkg.New(t.md.FullName())
					if err := csproto.Unmarshal(b2, back2); err != nil || !sameAs(back2) {
						viol("Unmarshal", "cannot-read-runtime-bytes", fmt.Sprintf("csproto.Unmarshal of the runtime's Marshal output does not give the original (err=%v)", err), d)
					}
				}
				// Unmarshal into a message that already holds other content: like the owning runtime's Unmarshal (which
				// resets the target first), for the value's bytes and for the zero-length payload
				if err == nil {
					otherVal := cases[(ci+1)%len(cases)].Msg
					for pi, payload := range [][]byte{b2, nil, {}} {
						for _, viaCodec := range []bool{false, true} {
							dst1, e1 := build(t, otherVal)
							dst2, e2 := build(t, otherVal)
							if e1 != nil || e2 != nil {
								continue
							}
							evals++
							var uerr error
							fn := "Unmarshal"
							if viaCodec {
								fn = "GrpcCodec"
								var codec csproto.GrpcCodec
								uerr = codec.Unmarshal(payload, dst1)
							} else {
								uerr = csproto.Unmarshal(payload, dst1)
							}
							rerr := ops.unmarshal(payload, dst2)
							d1, x1 := t.pkg.ToDynamic(dst1)
							d2, x2 := t.pkg.ToDynamic(dst2)
							pc := []string{"value-bytes", "nil-payload", "empty-payload"}[pi]
							switch {
							case (uerr == nil) != (rerr == nil):
								viol(fn, "reused-destination-error-differs:"+pc, fmt.Sprintf("decoding (%s) into a message that holds other content: csproto err=%v, owning runtime err=%v", pc, uerr, rerr), d)
							case uerr == nil && (x1 != nil || x2 != nil || !bridge.Equal(d1, d2)):
								viol(fn, "reused-destination-differs:"+pc, fmt.Sprintf("decoding (%s) into a message that holds other content gives a different message than the owning runtime's Unmarshal", pc), d)
							}
						}
					}
				}
				// plain types: a message with an unset required field must be treated (accepted or refused) by
				// Marshal/Unmarshal exactly as the owning runtime's function treats it
				if !t.pkg.Fast {
					for i := 0; i < t.md.Fields().Len(); i++ {
						fd := t.md.Fields().Get(i)
						if fd.Cardinality() != protoreflect.Required || !d.Has(fd) {
							continue
						}
						part := cloneDyn(d)
						part.Clear(fd)
						pg, err := build(t, part)
						if err != nil {
							break
						}
						evals += 2
						_, cerr := csproto.Marshal(pg)
						pg2, _ := build(t, part)
						_, rerr := ops.marshal(pg2)
						if (cerr == nil) != (rerr == nil) {
							viol("Marshal", "missing-required-error-differs", fmt.Sprintf("message with required field %s unset: csproto.Marshal err=%v, owning runtime err=%v", fd.Name(), cerr, rerr), part)
						}
						pb, err := proto.MarshalOptions{AllowPartial: true}.Marshal(part)
						if err != nil {
							break
						}
						uerr := csproto.Unmarshal(pb, t.pkg.New(t.md.FullName()))
						ruerr := ops.unmarshal(pb, t.pkg.New(t.md.FullName()))
						if (uerr == nil) != (ruerr == nil) {
							viol("Unmarshal", "missing-required-error-differs", fmt.Sprintf("bytes lacking required field %s: csproto.Unmarshal err=%v, owning runtime err=%v", fd.Name(), uerr, ruerr), part)
						}
						break
					}
				}
				// Clone / Equal / Reset
				evals += 3
				cl := csproto.Clone(gen)
				// the oracle is the runtime's own Clone (gogo's, e.g., drops proto3 -0.0)
				rcl := ops.clone(gen)
				rd, rerr := t.pkg.ToDynamic(rcl)
				cd, cerr := t.pkg.ToDynamic(cl)
				if cl == nil || rerr != nil || cerr != nil || !bridge.Equal(cd, rd) || reflect.ValueOf(cl).Pointer() == reflect.ValueOf(gen).Pointer() {
					viol("Clone", "differs-from-runtime", "csproto.Clone did not return a distinct copy equal to the runtime's own Clone", d)
				} else {
					if ops.equal(cl, gen) != csproto.Equal(cl, gen) {
						viol("Equal", "differs-from-runtime", "csproto.Equal disagrees with the runtime's Equal on a clone and its original", d)
					}
					other, _ := build(t, cases[(ci+1)%len(cases)].Msg)
					// the same object on both sides: still the runtime's own answer (Gogo's Equal is false for a message
					// that holds a NaN, protobuf-go's is true)
					if csproto.Equal(gen, gen) != ops.equal(gen, gen) {
						viol("Equal", "differs-from-runtime:same-object", fmt.Sprintf("csproto.Equal(m, m) = %v, the runtime's Equal(m, m) = %v", csproto.Equal(gen, gen), ops.equal(gen, gen)), d)
					}
					if other != nil && csproto.Equal(gen, other) != ops.equal(gen, other) {
						viol("Equal", "differs-from-runtime", "csproto.Equal disagrees with the runtime's Equal", d)
					}
					if t.pkg.Flavour == "gv2" {
						// same descriptor, another Go type: protobuf-go's Equal compares by descriptor and content
						if pm, ok := gen.(proto.Message); ok {
							dyn := dynamicpb.NewMessage(pm.ProtoReflect().Descriptor())
							if err := (proto.UnmarshalOptions{AllowPartial: true, Resolver: t.pkg.Resolver()}).Unmarshal(b1, dyn); err == nil {
								evals += 2
								if csproto.Equal(gen, dyn) != proto.Equal(pm, dyn) || csproto.Equal(dyn, gen) != proto.Equal(dyn, pm) {
									viol("Equal", "differs-from-runtime:dynamic-message-of-same-descriptor", fmt.Sprintf("csproto.Equal(%T, *dynamicpb.Message of the same descriptor and content) disagrees with proto.Equal (%v)", gen, proto.Equal(pm, dyn)), d)
								}
							}
						}
					}
					csproto.Reset(cl)
					if dd, err := t.pkg.ToDynamic(cl); err != nil || !bridge.Equal(dd, dynamicpb.NewMessage(t.md)) {
						viol("Reset", "not-empty", "message not empty after csproto.Reset", d)
					}
				}
				// MarshalText
				evals++
				txt, err := csproto.MarshalText(gen)
				if err != nil || normText(txt) != normText(ops.text(gen)) {
					viol("MarshalText", "differs-from-runtime", fmt.Sprintf("csproto.MarshalText differs from the runtime's text marshaler (err=%v)", err), d)
				}
				// MarshalText of a message that carries unknown fields, and (first case of a type) of a typed nil pointer
				if ci%3 == 0 {
					du := cloneDyn(d)
					du.SetUnknown(protowire.AppendVarint(protowire.AppendTag(protowire.AppendBytes(protowire.AppendTag(nil, 536870003, protowire.BytesType), []byte("uk")), 536870002, protowire.VarintType), 5))
					if gu, err := build(t, du); err == nil {
						evals++
						var want string
						if pi := monitor.Try(func() { want = ops.text(gu) }); pi == nil {
							txt, err := csproto.MarshalText(gu)
							if err != nil || normText(txt) != normText(want) {
								viol("MarshalText", "differs-from-runtime:unknown-fields", fmt.Sprintf("csproto.MarshalText of a message with unknown fields differs from the runtime's text marshaler (err=%v)", err), du)
							}
						}
					}
				}
				if ci == 0 {
					typedNil := reflect.Zero(reflect.TypeOf(gen)).Interface()
					var want string
					if pi := monitor.Try(func() { want = ops.text(typedNil) }); pi == nil {
						evals++
						var txt string
						var err error
						if pi := monitor.Try(func() { txt, err = csproto.MarshalText(typedNil) }); pi != nil {
							viol("MarshalText", "panic:typed-nil", "csproto.MarshalText panicked on a typed nil message: "+pi.Value, d)
						} else if err == nil && normText(txt) != normText(want) {
							viol("MarshalText", "differs-from-runtime:typed-nil", fmt.Sprintf("csproto.MarshalText(typed nil) = %q, the runtime's text marshaler gives %q", txt, want), d)
						}
					}
				}
				// gRPC codec
				evals++
				var codec csproto.GrpcCodec
				b3, err := codec.Marshal(gen)
				if err != nil || (!hasBigMap(d.ProtoReflect()) && !bytes.Equal(b3, b1)) || len(b3) != len(b1) {
					viol("GrpcCodec", "marshal-differs", "GrpcCodec.Marshal differs from csproto.Marshal", d)
				}
				// the frame handed out by the codec belongs to the caller (gRPC queues it): it must still hold the same bytes
				// after the codec has marshaled the next messages
				if prevFrame != nil && !bytes.Equal(prevFrame, prevFrameCopy) {
					viol("GrpcCodec", "earlier-frame-changed", "the bytes returned by an earlier GrpcCodec.Marshal changed when the codec marshaled another message", d)
				}
				if err == nil {
					prevFrame, prevFrameCopy = b3, append([]byte(nil), b3...)
				}
				back3 := t.pkg.New(t.md.FullName())
				if err := codec.Unmarshal(b1, back3); err != nil || !sameAs(back3) {
					viol("GrpcCodec", "unmarshal-differs", fmt.Sprintf("GrpcCodec.Unmarshal does not give the original (err=%v)", err), d)
				}
				if codec.Name() != "proto" {
					viol("GrpcCodec", "name", "GrpcCodec.Name() is "+codec.Name(), d)
				}
				// Size of a message that was sized and marshaled before (above) and is then changed in place:
				// must follow the contents, like the owning runtime's Size and the marshaled length do
				cur := cloneDyn(d)
				mr := monitor.NewRand(cfg.seed, "c11mut", t.pkg.GoPkg, string(t.md.FullName()), ci)
				mg := cfg.gen(t, "mut", ci)
				mg.NoExt = true
				for k := 0; k < 3; k++ {
					mu := randomMutation(mr, mg, cur.ProtoReflect())
					if mu == nil {
						continue
					}
					if !mu.apply(cur.ProtoReflect()) || !mu.apply(bridge.Reflect(gen)) {
						break
					}
					evals++
					sz := csproto.Size(gen)
					fresh, err := build(t, cur)
					if err != nil {
						break
					}
					bm, err := ops.marshal(fresh)
					if err != nil {
						break
					}
					if own, ok := fresh.(interface{ Size() int }); ok && !t.pkg.Fast && sz != len(bm) && own.Size() == sz {
						classes["type-own-Size-ne-runtime-marshal-len/"+t.pkg.Flavour+"/"+t.pkg.OptKey]++
					} else if rsz := ops.size(fresh); sz != len(bm) && rsz != len(bm) && sz == rsz {
						// the owning runtime's Size disagrees with its own Marshal on this value (see above) and csproto follows it
						classes["runtime-size-ne-its-own-marshal-len/"+t.pkg.Flavour+"/"+t.pkg.OptKey]++
					} else if sz != len(bm) {
						viol("Size", "stale-after-mutation", fmt.Sprintf("after %q on a message sized before, csproto.Size=%d; the owning runtime marshals the current contents to %d bytes", mu.desc, sz, len(bm)), cur)
						break
					}
					if bc, err := csproto.Marshal(gen); err != nil || len(bc) != len(bm) {
						viol("Marshal", "stale-after-mutation", fmt.Sprintf("after %q on a message marshaled before, csproto.Marshal returned %d bytes (err=%v); the owning runtime marshals the current contents to %d bytes", mu.desc, len(bc), err, len(bm)), cur)
						break
					}
				}
			})
			if pi != nil {
				viol("any", "panic:"+pi.Frame, "a shim call panicked: "+pi.Value, d)
			}
			if len(bridge.SortedFieldNumbers(d.ProtoReflect())) > 0 {
				classes[fmt.Sprintf("%s/%s/%s/%s", t.pkg.Flavour, kind, t.md.Name(), c.Class)]++
			}
			if res.WantSample() && ci == 2 {
				res.Sample(map[string]any{"package": t.pkg.GoPkg, "kind": kind, "message": string(t.md.FullName()), "value": bridge.Text(d), "functions": "MsgType Marshal Unmarshal Size Clone Equal Reset MarshalText GrpcCodec"})
			}
		}
	}
	// cross-runtime Equal: same logical value, different runtimes -> documented false
	byUnit := map[string][]target{}
	for _, t := range targets {
		if t.pkg.OptKey == "plain" {
			byUnit[t.pkg.Unit+"/"+string(t.md.Name())] = append(byUnit[t.pkg.Unit+"/"+string(t.md.Name())], t)
		}
	}
	for _, ts := range byUnit {
		for i := 0; i+1 < len(ts); i++ {
			a, b := ts[i], ts[i+1]
			ga, _ := build(a, cfg.gen(a).Boundary(a.md)[0].Msg)
			gb, _ := build(b, cfg.gen(b).Boundary(b.md)[0].Msg)
			evals++
			var eq bool
			if pi := monitor.Try(func() { eq = csproto.Equal(ga, gb) }); pi != nil {
				res.Violate("C11:cross:Equal:panic", "csproto.Equal panicked on messages of two runtimes: "+pi.Value, map[string]any{"a": a.pkg.GoPkg, "b": b.pkg.GoPkg})
			} else if eq {
				res.Violate("C11:cross:Equal:true", "csproto.Equal is true for messages of two different runtimes", map[string]any{"a": a.pkg.GoPkg, "b": b.pkg.GoPkg})
			}
			classes["cross-equal/"+a.pkg.Flavour+"-"+b.pkg.Flavour]++
		}
	}
	// unsupported values: documented error / zero result, no panic (Reset is documented to panic)
	if cfg.shard == 0 {
		var typedNil *notAMessage
		vals := map[string]any{"nil": nil, "int": 42, "string": "x", "struct": notAMessage{1}, "ptr-to-non-message": &notAMessage{1}, "ptr-to-int": new(int), "typed-nil-non-message": typedNil, "slice": []byte{1}}
		for name, v := range vals {
			v := v
			check := func(fn string, f func() string) {
				evals++
				var bad string
				if pi := monitor.Try(func() { bad = f() }); pi != nil {
					res.Violate(fmt.Sprintf("C11:unsupported:%s:panic:%s", fn, name), fmt.Sprintf("csproto.%s panicked on an unsupported value (%s): %s", fn, name, pi.Value), map[string]any{"value": name})
				} else if bad != "" {
					res.Violate(fmt.Sprintf("C11:unsupported:%s:%s:%s", fn, bad, name), fmt.Sprintf("csproto.%s on an unsupported value (%s): %s", fn, name, bad), map[string]any{"value": name})
				}
				classes["unsupported/"+fn+"/"+name]++
			}
			check("Marshal", func() string {
				if _, err := csproto.Marshal(v); !errors.Is(err, csproto.ErrMarshaler) {
					return fmt.Sprintf("expected ErrMarshaler, got %v", err)
				}
				return ""
			})
			check("Unmarshal", func() string {
				if err := csproto.Unmarshal([]byte{8, 1}, v); !errors.Is(err, csproto.ErrUnmarshaler) {
					return fmt.Sprintf("expected ErrUnmarshaler, got %v", err)
				}
				return ""
			})
			check("Size", func() string {
				if n := csproto.Size(v); n != 0 {
					return fmt.Sprintf("expected 0, got %d", n)
				}
				return ""
			})
			check("MsgType", func() string {
				if mt := csproto.MsgType(v); mt != csproto.MessageTypeUnknown {
					return fmt.Sprintf("unexpected classification %d", mt)
				}
				return ""
			})
			check("Clone", func() string {
				if c := csproto.Clone(v); c != nil {
					return "expected nil"
				}
				return ""
			})
			check("Equal", func() string {
				if csproto.Equal(v, v) {
					return "expected false"
				}
				return ""
			})
			check("MarshalText", func() string {
				if _, err := csproto.MarshalText(v); err == nil {
					return "expected an error"
				}
				return ""
			})
			check("ClearAllExtensions", func() string {
				csproto.ClearAllExtensions(v) // nothing to clear, nothing to report: it must only not panic
				return ""
			})
		}
	}
	res.Eval(evals)
	res.MergeClasses(classes)
}

// runC11Concurrent: G goroutines race on the first classification of types (cache emptied between
// rounds by the verif hook); every goroutine must observe the correct class. Meant for the -race build.
func runC11Concurrent(cfg *config, res *monitor.Result) {
	rounds := 100
	if cfg.thorough() {
		rounds = 600
	}
	var inflight, maxInflight atomic.Int64
	var ctr atomic.Uint64
	seed := uint64(cfg.seed)*0x9E3779B97F4A7C15 + uint64(cfg.shard)
	hook := func(site string) {
		switch site {
		case "msgtype.miss":
			n := inflight.Add(1)
			for {
				m := maxInflight.Load()
				if n <= m || maxInflight.CompareAndSwap(m, n) {
					break
				}
			}
			z := (ctr.Add(1) ^ seed) * 0xBF58476D1CE4E5B9
			switch (z >> 17) % 6 {
			case 0, 1:
				runtime.Gosched()
			case 2:
				time.Sleep(time.Microsecond)
			}
		case "msgtype.store":
			inflight.Add(-1)
		}
	}
	csproto.VerifHook.Store(&hook)
	var targets []target
	targets = append(targets, cfg.targets(true)...)
	targets = append(targets, cfg.targets(false)...)
	if len(targets) == 0 {
		return
	}
	classes := map[string]int64{}
	var evals, overlapRounds int64
	type conf struct{ g, procs int }
	confs := []conf{{2, 1}, {16, 2}, {64, 16}, {16, 16}, {2, 16}}
	var mu sync.Mutex
	for round := 0; round < rounds; round++ {
		c := confs[round%len(confs)]
		runtime.GOMAXPROCS(c.procs)
		csproto.VerifResetTypeCache()
		maxInflight.Store(0)
		// a handful of types per round, all racing at once
		var vals []any
		var want []csproto.MessageType
		var names []string
		for k := 0; k < 6; k++ {
			t := targets[(round*6+k)%len(targets)]
			gen, err := build(t, cfg.gen(t).Boundary(t.md)[0].Msg)
			if err != nil {
				continue
			}
			vals = append(vals, gen)
			want = append(want, opsFor(t.pkg.Flavour).class)
			names = append(names, t.pkg.GoPkg+"."+string(t.md.Name()))
		}
		cfg.progress.Set("C11-concurrent", fmt.Sprint(names))
		var wg sync.WaitGroup
		start := make(chan struct{})
		for gi := 0; gi < c.g; gi++ {
			wg.Add(1)
			go func(gi int) {
				defer wg.Done()
				<-start
				for k := range vals {
					idx := (k + gi) % len(vals)
					var mt csproto.MessageType
					pi := monitor.Try(func() {
						switch gi % 3 {
						case 0:
							mt = csproto.MsgType(vals[idx])
						case 1:
							_ = csproto.Clone(vals[idx])
							mt = csproto.MsgType(vals[idx])
						default:
							_, _ = csproto.MarshalText(vals[idx])
							mt = csproto.MsgType(vals[idx])
						}
					})
					if pi != nil || mt != want[idx] {
						mu.Lock()
						res.Violate("C11:concurrent:classification", fmt.Sprintf("goroutine %d observed class %d for %s, expected %d (panic=%v)", gi, mt, names[idx], want[idx], pi != nil),
							map[string]any{"type": names[idx], "goroutines": c.g, "gomaxprocs": c.procs})
						mu.Unlock()
					}
				}
			}(gi)
		}
		close(start)
		wg.Wait()
		evals += int64(c.g * len(vals))
		if maxInflight.Load() >= 2 {
			overlapRounds++
		}
		classes[fmt.Sprintf("first-use-race/G%d/procs%d/overlap%v", c.g, c.procs, maxInflight.Load() >= 2)]++
	}
	runtime.GOMAXPROCS(runtime.NumCPU())
	res.Eval(evals)
	res.MergeClasses(classes)
	res.Extra("rounds_with_overlapping_first_classification", overlapRounds)
	res.Extra("first_use_rounds", int64(rounds))
}
