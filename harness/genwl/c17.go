package genwl

import (
	"fmt"
	"sort"
	"strings"

	"github.com/CrowdStrike/csproto"
	"google.golang.org/protobuf/proto"
	"google.golang.org/protobuf/reflect/protoreflect"
	"google.golang.org/protobuf/types/dynamicpb"

	"verifharness/bridge"
	"verifharness/monitor"
)

// slot is one required field reachable in a populated value tree.
type slot struct {
	pos   string // own | child | list-elem | map-value | oneof | extension
	clear func()
	path  string
}

// collectSlots walks the populated tree of m and returns a slot per set required field.
func collectSlots(m protoreflect.Message, pos, path string, depth int, out *[]slot) {
	md := m.Descriptor()
	for i := 0; i < md.Fields().Len(); i++ {
		fd := md.Fields().Get(i)
		if fd.Cardinality() == protoreflect.Required && m.Has(fd) {
			mm, f := m, fd
			*out = append(*out, slot{pos: pos, path: path + string(fd.Name()), clear: func() { mm.Clear(f) }})
		}
	}
	if depth > 5 {
		return
	}
	m.Range(func(fd protoreflect.FieldDescriptor, v protoreflect.Value) bool {
		p := path + string(fd.Name())
		switch {
		case fd.IsMap() && fd.MapValue().Kind() == protoreflect.MessageKind:
			var keys []protoreflect.MapKey
			v.Map().Range(func(k protoreflect.MapKey, _ protoreflect.Value) bool { keys = append(keys, k); return true })
			sort.Slice(keys, func(i, j int) bool { return keys[i].String() < keys[j].String() })
			for _, k := range keys {
				collectSlots(v.Map().Get(k).Message(), "map-value", p+"["+k.String()+"].", depth+1, out)
			}
		case fd.IsList() && fd.Kind() == protoreflect.MessageKind:
			for i := 0; i < v.List().Len(); i++ {
				collectSlots(v.List().Get(i).Message(), "list-elem", fmt.Sprintf("%s[%d].", p, i), depth+1, out)
			}
		case !fd.IsList() && !fd.IsMap() && fd.Kind() == protoreflect.MessageKind:
			np := "child"
			if fd.IsExtension() {
				np = "extension"
			} else if od := fd.ContainingOneof(); od != nil && !od.IsSynthetic() {
				np = "oneof"
			}
			collectSlots(v.Message(), np, p+".", depth+1, out)
		}
		return true
	})
}

func hasRequiredReachable(md protoreflect.MessageDescriptor, seen map[protoreflect.FullName]bool) bool {
	if seen[md.FullName()] {
		return false
	}
	seen[md.FullName()] = true
	for i := 0; i < md.Fields().Len(); i++ {
		fd := md.Fields().Get(i)
		if fd.Cardinality() == protoreflect.Required {
			return true
		}
		if fd.Message() != nil {
			sub := fd.Message()
			if fd.IsMap() {
				sub = fd.MapValue().Message()
			}
			if sub != nil && hasRequiredReachable(sub, seen) {
				return true
			}
		}
	}
	return false
}

func runC17(cfg *config, res *monitor.Result) {
	nvals := 30
	if cfg.thorough() {
		nvals = 150
	}
	classes := map[string]int64{}
	var evals int64
	for _, t := range cfg.targets(true) {
		if t.md.ParentFile().Syntax() != protoreflect.Proto2 {
			continue
		}
		reach := hasRequiredReachable(t.md, map[protoreflect.FullName]bool{})
		if !reach {
			for _, xt := range t.pkg.Exts[t.md.FullName()] {
				if xm := xt.TypeDescriptor().Message(); xm != nil && hasRequiredReachable(xm, map[protoreflect.FullName]bool{}) {
					reach = true
				}
			}
		}
		if !reach {
			continue
		}
		g := cfg.gen(t)
		fullVal := cfg.gen(t, "full").Random(t.md).Msg // every required field set
		for vi := 0; vi < nvals; vi++ {
			base := g.Random(t.md).Msg
			if vi == 0 {
				base = dynamicpb.NewMessage(t.md)
				gg := cfg.gen(t, "min")
				base = gg.Boundary(t.md)[0].Msg // required fields only
			}
			var slots []slot
			collectSlots(base.ProtoReflect(), "own", "", 0, &slots)
			nsub := 1 << uint(len(slots))
			exhaustive := len(slots) <= 6
			if !exhaustive {
				nsub = 64
			}
			r := monitor.NewRand(cfg.seed, "c17", t.pkg.GoPkg, string(t.md.FullName()), vi)
			for si := 0; si < nsub; si++ {
				mask := uint64(si)
				if !exhaustive {
					mask = r.Uint64()
					if si < len(slots) {
						mask = 1 << uint(si) // every single slot alone
					}
				}
				d := cloneDyn(base)
				var ds []slot
				collectSlots(d.ProtoReflect(), "own", "", 0, &ds)
				posSet := map[string]bool{}
				var cleared []string
				for i, s := range ds {
					if i < 64 && mask&(1<<uint(i)) != 0 {
						s.clear()
						posSet[s.pos] = true
						cleared = append(cleared, s.path)
					}
				}
				cfg.progress.Set("C17", t.pkg.GoPkg, string(t.md.FullName()), fmt.Sprint(cleared))
				initialized := proto.CheckInitialized(d) == nil
				if initialized != (len(cleared) == 0) {
					res.Inconc("reference CheckInitialized disagrees with the slots cleared")
					continue
				}
				pos := sortedKeys(posSet)
				evals += 3
				if len(cleared) > 0 {
					classes[fmt.Sprintf("%s/%s/%s", t.pkg.GoPkg, t.md.Name(), strings.Join(pos, "+"))]++
				}
				// --- marshal direction
				gen, err := build(t, d)
				if err != nil {
					res.Inconc(err.Error())
					continue
				}
				report := func(dir, failure, what string, extra map[string]any) {
					empty := ""
					if len(bridge.SortedFieldNumbers(d.ProtoReflect())) == 0 {
						empty = ":empty-message"
					}
					sig := fmt.Sprintf("C17:%s:%s:%s:%s%s", sigFlav(t), dir, failure, strings.Join(pos, "+"), empty)
					w := map[string]any{"package": t.pkg.GoPkg, "message": string(t.md.FullName()), "value": bridge.Text(d), "unset_required": cleared}
					for k, v := range extra {
						w[k] = v
					}
					res.Violate(sig, fmt.Sprintf("%s (%s): %s; unset required fields: %v", t.md.FullName(), t.pkg.GoPkg, what, cleared), w)
				}
				for _, via := range []string{"Marshal", "csproto.Marshal"} {
					var b []byte
					var merr error
					pi := monitor.Try(func() {
						if via == "Marshal" {
							b, merr = gen.(fastMsg).Marshal()
						} else {
							g2, _ := build(t, d)
							b, merr = csproto.Marshal(g2)
						}
					})
					switch {
					case pi != nil:
						report("marshal", "panic:"+monitor.PanicClass(pi.Value), via+" panicked: "+pi.Value, nil)
					case merr == nil && !initialized:
						report("marshal", "accepted-missing-required", fmt.Sprintf("%s returned %d bytes although required fields are unset", via, len(b)), nil)
					case merr != nil && initialized:
						report("marshal", "rejected-complete-message", via+" failed although every required field is set: "+merr.Error(), nil)
					}
				}
				// --- unmarshal direction: reference encoding of the partial value
				b, err := bridge.MarshalRef(d)
				if err != nil {
					res.Inconc("reference cannot encode a partial message: " + err.Error())
					continue
				}
				// the reference's strict parse is the oracle
				strict := dynamicpb.NewMessage(t.md)
				refErr := proto.UnmarshalOptions{Resolver: t.pkg.Resolver()}.Unmarshal(b, strict)
				if (refErr == nil) != initialized {
					res.Inconc("reference strict Unmarshal disagrees with CheckInitialized")
					continue
				}
				dst := t.pkg.New(t.md.FullName()).(fastMsg)
				var uerr error
				pi := monitor.Try(func() { uerr = dst.Unmarshal(b) })
				inHex := map[string]any{"input_hex": monitor.Hex(b)}
				switch {
				case pi != nil:
					report("unmarshal", "panic:"+monitor.PanicClass(pi.Value), "Unmarshal panicked: "+pi.Value, inHex)
				case uerr == nil && !initialized:
					report("unmarshal", "accepted-missing-required", fmt.Sprintf("Unmarshal accepted %d bytes that lack required fields", len(b)), inHex)
				case uerr != nil && initialized:
					report("unmarshal", "rejected-complete-message", "Unmarshal failed although every required field is present: "+uerr.Error(), inHex)
				}
				// other legal encodings of the same partial value (every variant family of E3 without unknown fields), among them
				// a message field split over two occurrences, several members of a oneof one after the other (the last one
				// counts, whatever the earlier ones lack or supply), map entries with the value omitted or written twice.
				// The verdict of the reference's strict parse of the very same bytes is the oracle.
				for vi2 := range variantFamilies {
					v := &variantFamilies[vi2]
					if v.unknown || v.family == "canonical" {
						continue
					}
					enc := &venc{v: v, r: monitor.NewRand(cfg.seed, "c17-variant", t.pkg.GoPkg, string(t.md.FullName()), vi, si, v.family)}
					vb := enc.message(d.ProtoReflect(), 0)
					if enc.applied == 0 {
						continue
					}
					vstrict := dynamicpb.NewMessage(t.md)
					vrefErr := proto.UnmarshalOptions{Resolver: t.pkg.Resolver()}.Unmarshal(vb, vstrict)
					if vrefErr != nil && !strings.Contains(vrefErr.Error(), "required") {
						res.Inconc("reference rejects a generated variant for another reason than required fields: " + vrefErr.Error())
						continue
					}
					evals++
					classes[fmt.Sprintf("%s/%s/variant-%s/ref-accepts=%v", t.pkg.GoPkg, t.md.Name(), v.family, vrefErr == nil)]++
					vdst := t.pkg.New(t.md.FullName()).(fastMsg)
					var vuerr error
					vpi := monitor.Try(func() { vuerr = vdst.Unmarshal(vb) })
					vHex := map[string]any{"input_hex": monitor.Hex(vb), "variant": v.family}
					switch {
					case vpi != nil:
						report("unmarshal-"+v.family, "panic:"+monitor.PanicClass(vpi.Value), "Unmarshal panicked: "+vpi.Value, vHex)
					case vuerr == nil && vrefErr != nil:
						report("unmarshal-"+v.family, "accepted-missing-required", fmt.Sprintf("Unmarshal accepted %d bytes (%s encoding) whose final value lacks required fields; the reference says: %v", len(vb), v.family, vrefErr), vHex)
					case vuerr != nil && vrefErr == nil:
						report("unmarshal-"+v.family, "rejected-complete-message", fmt.Sprintf("Unmarshal failed on a %s encoding whose final value has every required field: %v", v.family, vuerr), vHex)
					}
				}
				// the same bytes decoded into a message that already holds a COMPLETE value: the verdict depends on the
				// input alone (Unmarshal replaces the contents), also for the empty input
				if fullGen, err := build(t, fullVal); err == nil {
					evals++
					var uerr2 error
					pi := monitor.Try(func() { uerr2 = fullGen.(fastMsg).Unmarshal(b) })
					switch {
					case pi != nil:
						report("unmarshal-into-used-message", "panic:"+monitor.PanicClass(pi.Value), "Unmarshal panicked: "+pi.Value, inHex)
					case uerr2 == nil && !initialized:
						report("unmarshal-into-used-message", "accepted-missing-required", fmt.Sprintf("Unmarshal of %d bytes that lack required fields into a message holding a complete value returned no error", len(b)), inHex)
					case uerr2 != nil && initialized:
						report("unmarshal-into-used-message", "rejected-complete-message", "Unmarshal into a used message failed although every required field is present: "+uerr2.Error(), inHex)
					}
				}
				if res.WantSample() && si == 1 {
					res.Sample(map[string]any{"package": t.pkg.GoPkg, "message": string(t.md.FullName()), "value": bridge.Text(d), "unset_required": cleared, "reference_initialized": initialized})
				}
			}
		}
	}
	res.Eval(evals)
	res.MergeClasses(classes)
}

func sortedKeys(m map[string]bool) []string {
	var ks []string
	for k := range m {
		ks = append(ks, k)
	}
	sort.Strings(ks)
	return ks
}
