package genwl

import (
	"bytes"
	"fmt"
	"os"
	"reflect"
	"runtime"
	"strings"
	"sync"

	"github.com/CrowdStrike/csproto"
	gogoproto "github.com/gogo/protobuf/proto"
	golangproto "github.com/golang/protobuf/proto"
	"google.golang.org/protobuf/proto"
	"google.golang.org/protobuf/reflect/protoreflect"
	"google.golang.org/protobuf/types/dynamicpb"

	"verifharness/bridge"
	"verifharness/monitor"
	"verifharness/valgen"
)

// C09: Marshal output depends only on the message's current contents.

// mutation addresses a field by a path of field numbers so that it can be applied both to the model (a
// dynamic message) and to the generated struct (through reflection).
type mutation struct {
	desc string
	path []protoreflect.FieldNumber // child message fields to descend through
	num  protoreflect.FieldNumber
	op   string // set | clear | append | truncate | mapset | mapdel | setchild
	val  protoreflect.Value
	key  protoreflect.MapKey
}

func resolve(m protoreflect.Message, path []protoreflect.FieldNumber) protoreflect.Message {
	for _, n := range path {
		fd := m.Descriptor().Fields().ByNumber(n)
		if fd == nil || !m.Has(fd) {
			return nil
		}
		m = m.Mutable(fd).Message()
	}
	return m
}

func (mu *mutation) apply(root protoreflect.Message) bool {
	m := resolve(root, mu.path)
	if m == nil {
		return false
	}
	fd := m.Descriptor().Fields().ByNumber(mu.num)
	if fd == nil {
		return false
	}
	switch mu.op {
	case "set":
		m.Set(fd, mu.val)
	case "clear":
		m.Clear(fd)
	case "append":
		m.Mutable(fd).List().Append(mu.val)
	case "truncate":
		l := m.Mutable(fd).List()
		if l.Len() > 0 {
			l.Truncate(l.Len() / 2)
		}
	case "mapset":
		m.Mutable(fd).Map().Set(mu.key, mu.val)
	case "mapdel":
		m.Mutable(fd).Map().Clear(mu.key)
	case "setchild":
		m.Set(fd, m.NewField(fd))
	}
	return true
}

// randomMutation picks a mutation valid for the current contents of the model.
func randomMutation(r *monitor.Rand, g *valgen.Gen, model protoreflect.Message) *mutation {
	var path []protoreflect.FieldNumber
	m := model
	// descend into an existing child sometimes (in-place mutation of a nested message)
	for depth := 0; depth < 3 && r.Chance(1, 3); depth++ {
		var kids []protoreflect.FieldDescriptor
		m.Range(func(fd protoreflect.FieldDescriptor, _ protoreflect.Value) bool {
			if fd.Kind() == protoreflect.MessageKind && !fd.IsList() && !fd.IsMap() && !fd.IsExtension() &&
				fd.Message().ParentFile().Package() != "google.protobuf" {
				kids = append(kids, fd)
			}
			return true
		})
		if len(kids) == 0 {
			break
		}
		fd := kids[r.Intn(len(kids))]
		path = append(path, fd.Number())
		m = m.Get(fd).Message()
	}
	fds := m.Descriptor().Fields()
	if fds.Len() == 0 {
		return nil
	}
	fd := fds.Get(r.Intn(fds.Len()))
	mu := &mutation{path: path, num: fd.Number()}
	name := fmt.Sprintf("%v.%s", path, fd.Name())
	switch {
	case fd.IsMap():
		if fd.MapValue().Kind() == protoreflect.MessageKind {
			return nil
		}
		mu.key = mapKeyFor(fd.MapKey(), r.Intn(4))
		if r.Chance(1, 3) {
			mu.op, mu.desc = "mapdel", "mapdel "+name
		} else {
			mu.op, mu.val, mu.desc = "mapset", g.RandomScalarValue(fd.MapValue()), "mapset "+name
		}
	case fd.IsList():
		if fd.Kind() == protoreflect.MessageKind {
			return nil
		}
		if r.Chance(1, 3) {
			mu.op, mu.desc = "truncate", "shrink "+name
		} else {
			mu.op, mu.val, mu.desc = "append", g.RandomScalarValue(fd), "grow "+name
		}
	case fd.Kind() == protoreflect.MessageKind:
		if r.Chance(1, 2) && fd.Cardinality() != protoreflect.Required {
			mu.op, mu.desc = "clear", "clear "+name
		} else {
			if hasRequiredReachable(fd.Message(), map[protoreflect.FullName]bool{}) {
				return nil
			}
			mu.op, mu.desc = "setchild", "set-empty-child "+name
		}
	default:
		if r.Chance(1, 4) && fd.Cardinality() != protoreflect.Required {
			mu.op, mu.desc = "clear", "clear "+name
		} else {
			mu.op, mu.val, mu.desc = "set", g.RandomScalarValue(fd), "set "+name
		}
	}
	return mu
}

func mapKeyFor(kfd protoreflect.FieldDescriptor, i int) protoreflect.MapKey {
	switch kfd.Kind() {
	case protoreflect.BoolKind:
		return protoreflect.ValueOfBool(i%2 == 1).MapKey()
	case protoreflect.StringKind:
		return protoreflect.ValueOfString([]string{"", "k", "key2", "zz"}[i%4]).MapKey()
	case protoreflect.Int32Kind, protoreflect.Sint32Kind, protoreflect.Sfixed32Kind:
		return protoreflect.ValueOfInt32(int32(i) - 1).MapKey()
	case protoreflect.Int64Kind, protoreflect.Sint64Kind, protoreflect.Sfixed64Kind:
		return protoreflect.ValueOfInt64(int64(i) - 1).MapKey()
	case protoreflect.Uint32Kind, protoreflect.Fixed32Kind:
		return protoreflect.ValueOfUint32(uint32(i)).MapKey()
	}
	return protoreflect.ValueOfUint64(uint64(i)).MapKey()
}

// runtimeSizeMarshal calls the owning runtime's own Size and Marshal on the struct (they use the cache word).
func runtimeSizeMarshal(flavour string, obj any, doMarshal bool) (what string, b []byte, err error) {
	switch flavour {
	case "gogo":
		m := obj.(gogoproto.Message)
		if doMarshal {
			b, err = gogoproto.Marshal(m)
			return "gogo proto.Marshal", b, err
		}
		_ = gogoproto.Size(m)
		return "gogo proto.Size", nil, nil
	case "gv1":
		m := obj.(golangproto.Message)
		if doMarshal {
			b, err = golangproto.Marshal(m)
			return "golang proto.Marshal", b, err
		}
		_ = golangproto.Size(m)
		return "golang proto.Size", nil, nil
	default:
		m := obj.(proto.Message)
		if doMarshal {
			b, err = proto.Marshal(m)
			return "protobuf-go proto.Marshal", b, err
		}
		_ = proto.Size(m)
		return "protobuf-go proto.Size", nil, nil
	}
}

func runC09(cfg *config, res *monitor.Result) {
	if os.Getenv("VERIF_C09_PHASE") == "concurrent" {
		runC09Concurrent(cfg, res)
		return
	}
	nseq := 20
	maxOps := 12
	if cfg.thorough() {
		nseq = 120
		maxOps = 40
	}
	classes := map[string]int64{}
	var evals int64
	for _, t := range cfg.targets(true) {
		g := cfg.gen(t)
		g.NoExt = true
		r := monitor.NewRand(cfg.seed, "c09", t.pkg.GoPkg, string(t.md.FullName()))
		for s := 0; s < nseq; s++ {
			model := g.Random(t.md).Msg
			obj, err := build(t, model)
			if err != nil {
				res.Inconc(err.Error())
				break
			}
			var trace []string
			mutated := false
			dirty := byte(0xAA)
			nops := 3 + r.Intn(maxOps-2)
			for op := 0; op < nops; op++ {
				check := ""
				var got []byte
				var gerr error
				switch c := r.Intn(15); {
				case c == 14: // representation change only: empty containers become allocated-but-empty
					if pokeEmpty(reflect.ValueOf(obj), t.md, 0) == 0 {
						continue
					}
					mutated = true
					trace = append(trace, "alloc-empty-containers")
				case c < 5: // mutation
					mu := randomMutation(r, g, model.ProtoReflect())
					if mu == nil {
						continue
					}
					if !mu.apply(model.ProtoReflect()) || !mu.apply(bridge.Reflect(obj)) {
						res.Inconc("mutation could not be applied in lock-step: " + mu.desc)
						op = nops
						continue
					}
					mutated = true
					trace = append(trace, mu.desc)
				case c == 5:
					trace = append(trace, "Size")
					if pi := monitor.Try(func() { _ = obj.(fastMsg).Size() }); pi != nil {
						check, gerr = "Size", fmt.Errorf("panic: %s", pi.Value)
					}
				case c == 6:
					trace = append(trace, "csproto.Size")
					_ = monitor.Try(func() { _ = csproto.Size(obj) })
				case c == 7:
					what := "runtime Size (panicked)"
					_ = monitor.Try(func() { what, _, _ = runtimeSizeMarshal(t.pkg.Flavour, obj, false) })
					trace = append(trace, what)
				case c == 8:
					var what string
					if pi := monitor.Try(func() { what, _, _ = runtimeSizeMarshal(t.pkg.Flavour, obj, true) }); pi != nil {
						what = "runtime Marshal (panicked)"
					}
					trace = append(trace, what)
				case c == 9: // Unmarshal of a different value
					other := g.Random(t.md).Msg
					b, err := bridge.MarshalRef(other)
					if err != nil {
						continue
					}
					var uerr error
					if pi := monitor.Try(func() { uerr = obj.(fastMsg).Unmarshal(b) }); pi != nil || uerr != nil {
						op = nops // C06/C08's business; abandon this history
						continue
					}
					ref, err := t.pkg.UnmarshalRef(t.md, b, true)
					if err != nil {
						op = nops
						continue
					}
					model = ref
					mutated = true
					trace = append(trace, "Unmarshal(other)")
				case c == 10:
					csproto.Reset(obj)
					model = dynamicpb.NewMessage(t.md)
					if hasRequiredReachable(t.md, map[protoreflect.FullName]bool{}) {
						op = nops
						continue
					}
					mutated = true
					trace = append(trace, "Reset")
				case c == 11:
					cl := csproto.Clone(obj)
					if cl == nil {
						continue
					}
					// what the clone contains is the owning runtime's business (C11; gogo's merge e.g. does
					// not carry a proto3 -0.0 over): the model continues from what the clone really holds
					m2, err := t.pkg.ToDynamic(cl)
					if err != nil {
						op = nops
						continue
					}
					obj, model = cl, m2
					trace = append(trace, "Clone")
				case c == 12:
					check = "MarshalTo"
					trace = append(trace, check)
					if pi := monitor.Try(func() {
						fm := obj.(fastMsg)
						buf := make([]byte, fm.Size())
						for i := range buf { // a reused destination holds earlier content, not zeroes
							buf[i] = dirty
						}
						dirty = dirty*31 + 0x5B
						gerr = fm.MarshalTo(buf)
						got = buf
					}); pi != nil {
						gerr = fmt.Errorf("panic: %s", pi.Value)
					}
				default:
					check = "Marshal"
					if r.Bool() {
						check = "csproto.Marshal"
					}
					trace = append(trace, check)
					if pi := monitor.Try(func() {
						if check == "Marshal" {
							got, gerr = obj.(fastMsg).Marshal()
						} else {
							got, gerr = csproto.Marshal(obj)
						}
					}); pi != nil {
						gerr = fmt.Errorf("panic: %s", pi.Value)
					}
				}
				if check == "" || check == "Size" && gerr == nil {
					continue
				}
				evals++
				cfg.progress.Set("C09", t.pkg.GoPkg, string(t.md.FullName()), fmt.Sprint(trace))
				// expectation: Marshal of a fresh deep copy of the current contents
				fresh, err := build(t, model)
				if err != nil {
					res.Inconc(err.Error())
					break
				}
				var want []byte
				var werr error
				if pi := monitor.Try(func() { want, werr = fresh.(fastMsg).Marshal() }); pi != nil || werr != nil {
					break // content-level defect (C04/C05/C17), not history dependence
				}
				fail := ""
				switch {
				case gerr != nil:
					fail = "error-or-panic"
				case hasBigMap(model.ProtoReflect()):
					if len(got) != len(want) {
						fail = "length-differs"
					} else if d, err := t.pkg.UnmarshalRef(t.md, got, true); err != nil || !bridge.Equal(d, mustRef(t, want)) {
						fail = "content-differs"
					}
				case !bytes.Equal(got, want):
					fail = "bytes-differ"
					if len(got) != len(want) {
						fail = "length-differs"
					}
				}
				if mutated {
					classes[fmt.Sprintf("%s/%s/%s", t.pkg.Flavour, t.md.Name(), opBigrams(trace))]++
				}
				if fail != "" {
					cause := historyCause(trace)
					sig := fmt.Sprintf("C09:%s:%s:%s:%s", t.pkg.Flavour, check, fail, cause)
					res.Violate(sig, fmt.Sprintf("%s (%s): after history %v, %s returned %d bytes (err=%v); marshaling a fresh deep copy of the current contents returns %d bytes",
						t.md.FullName(), t.pkg.GoPkg, trace, check, len(got), gerr, len(want)),
						map[string]any{"package": t.pkg.GoPkg, "message": string(t.md.FullName()), "history": trace, "current_contents": bridge.Text(model),
							"got_hex": monitor.Hex(got), "fresh_copy_hex": monitor.Hex(want)})
					break
				}
				if res.WantSample() && op > 4 && mutated {
					res.Sample(map[string]any{"package": t.pkg.GoPkg, "message": string(t.md.FullName()), "history": append([]string(nil), trace...)})
				}
			}
		}
	}
	res.Eval(evals)
	res.MergeClasses(classes)
}

func mustRef(t target, b []byte) *dynamicpb.Message {
	d, _ := t.pkg.UnmarshalRef(t.md, b, true)
	return d
}

// historyCause classifies what preceded the failing marshal since the previous size-computing call.
func historyCause(trace []string) string {
	sawSizer := ""
	mutAfter := false
	for _, op := range trace[:len(trace)-1] {
		switch {
		case op == "Size" || op == "csproto.Size" || op == "Marshal" || op == "csproto.Marshal" || op == "MarshalTo":
			sawSizer, mutAfter = "csproto-sized", false
		case strings.Contains(op, "proto.Size") || strings.Contains(op, "proto.Marshal") || strings.HasPrefix(op, "runtime"):
			sawSizer, mutAfter = "runtime-sized", false
		case op == "Clone":
		default:
			mutAfter = true
		}
	}
	switch {
	case sawSizer == "":
		return "no-prior-size-call"
	case mutAfter:
		return sawSizer + "-then-mutated"
	}
	return sawSizer + "-unchanged-since"
}

func opBigrams(trace []string) string {
	kind := func(s string) string {
		if i := strings.IndexByte(s, ' '); i > 0 {
			return s[:i]
		}
		return s
	}
	n := len(trace)
	if n < 2 {
		return kind(trace[0])
	}
	return kind(trace[n-2]) + ">" + kind(trace[n-1])
}

// runC09Concurrent: G goroutines call Size/Marshal/csproto.Marshal/runtime Marshal on a shared quiescent
// message tree; every call must return the pre-computed bytes. Meant for the -race build.
func runC09Concurrent(cfg *config, res *monitor.Result) {
	iters := 300
	if cfg.thorough() {
		iters = 3000
	}
	type conf struct{ g, procs int }
	confs := []conf{{2, 1}, {8, 2}, {64, 16}, {8, 16}, {2, 16}, {16, 1}}
	classes := map[string]int64{}
	var evals int64
	var mu sync.Mutex
	ci := 0
	// a second message of another Go type is marshaled by the same goroutines (half of the iterations): shared state
	// keyed by Go type (type classification, extension lookups) then sees two types interleaved. prevSame is the
	// previous subject, prevOther the latest subject of another runtime flavour.
	type subject struct {
		t            target
		shared       any
		want, wantRT []byte
		model        *dynamicpb.Message
	}
	var prevSame, prevOther *subject
	for _, t := range cfg.targets(true) {
		g := cfg.gen(t)
		g.NoExt = true
		model := g.Random(t.md).Msg
		if hasBigMap(model.ProtoReflect()) {
			continue
		}
		shared, err := build(t, model)
		if err != nil {
			continue
		}
		fresh, _ := build(t, model)
		var want []byte
		var werr error
		if pi := monitor.Try(func() { want, werr = fresh.(fastMsg).Marshal() }); pi != nil || werr != nil {
			continue
		}
		// the owning runtime's encoder may order fields differently (protobuf-go: by number, csproto: as declared):
		// its concurrent calls are compared with its own sequential output on a fresh copy
		var wantRT []byte
		if pi := monitor.Try(func() {
			f2, _ := build(t, model)
			_, wantRT, werr = runtimeSizeMarshal(t.pkg.Flavour, f2, true)
		}); pi != nil || werr != nil || len(wantRT) != len(want) {
			continue
		}
		self := &subject{t: t, shared: shared, want: want, wantRT: wantRT, model: model}
		companion := prevSame
		if prevOther != nil && ci%2 == 0 {
			companion = prevOther
		}
		c := confs[ci%len(confs)]
		ci++
		runtime.GOMAXPROCS(c.procs)
		cfg.progress.Set("C09-concurrent", t.pkg.GoPkg, string(t.md.FullName()), fmt.Sprintf("G%d/procs%d", c.g, c.procs))
		var wg sync.WaitGroup
		start := make(chan struct{})
		per := iters / c.g
		if per < 8 {
			per = 8
		}
		for gi := 0; gi < c.g; gi++ {
			wg.Add(1)
			go func(gi int) {
				defer wg.Done()
				<-start
				for it := 0; it < per; it++ {
					var got []byte
					var gerr error
					what := ""
					cur := self
					if companion != nil && (gi+it/5)%2 == 1 {
						cur = companion
					}
					t, shared, want, wantRT, model := cur.t, cur.shared, cur.want, cur.wantRT, cur.model
					pi := monitor.Try(func() {
						switch (gi + it) % 5 {
						case 0:
							what = "Size"
							if n := shared.(fastMsg).Size(); n != len(want) {
								gerr = fmt.Errorf("Size()=%d, want %d", n, len(want))
							}
							got = want
						case 1:
							what = "Marshal"
							got, gerr = shared.(fastMsg).Marshal()
						case 2:
							what = "csproto.Marshal"
							got, gerr = csproto.Marshal(shared)
						case 3:
							what, got, gerr = runtimeSizeMarshal(t.pkg.Flavour, shared, true)
						default:
							what = "csproto.Size"
							if n := csproto.Size(shared); n != len(want) {
								gerr = fmt.Errorf("csproto.Size()=%d, want %d", n, len(want))
							}
							got = want
						}
					})
					if pi != nil {
						gerr = fmt.Errorf("panic: %s", pi.Value)
					}
					exp := want
					if (gi+it)%5 == 3 {
						exp = wantRT
					}
					if gerr != nil || !bytes.Equal(got, exp) {
						mu.Lock()
						res.Violate(fmt.Sprintf("C09:%s:concurrent:%s", t.pkg.Flavour, what),
							fmt.Sprintf("%s (%s): concurrent %s on a quiescent message returned %d bytes (err=%v), expected %d", t.md.FullName(), t.pkg.GoPkg, what, len(got), gerr, len(exp)),
							map[string]any{"package": t.pkg.GoPkg, "message": string(t.md.FullName()), "goroutines": c.g, "gomaxprocs": c.procs,
								"got_hex": monitor.Hex(got), "expected_hex": monitor.Hex(exp), "contents": bridge.Text(model)})
						mu.Unlock()
					}
				}
			}(gi)
		}
		close(start)
		wg.Wait()
		evals += int64(per * c.g)
		comp := "alone"
		if companion != nil {
			comp = "with-" + companion.t.pkg.Flavour
		}
		classes[fmt.Sprintf("concurrent/G%d/procs%d/%s/%s", c.g, c.procs, t.pkg.Flavour, comp)]++
		if prevSame != nil && prevSame.t.pkg.Flavour != t.pkg.Flavour {
			prevOther = prevSame
		}
		prevSame = self
	}
	runtime.GOMAXPROCS(runtime.NumCPU())
	res.Eval(evals)
	res.MergeClasses(classes)
	res.Extra("concurrent_message_types", int64(ci))
}
