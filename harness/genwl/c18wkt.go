package genwl

import (
	"encoding/json"
	"fmt"
	"reflect"

	"github.com/CrowdStrike/csproto"
	gogoproto "github.com/gogo/protobuf/proto"
	gogotypes "github.com/gogo/protobuf/types"
	"google.golang.org/protobuf/proto"
	"google.golang.org/protobuf/types/known/durationpb"
	"google.golang.org/protobuf/types/known/emptypb"
	"google.golang.org/protobuf/types/known/fieldmaskpb"
	"google.golang.org/protobuf/types/known/structpb"
	"google.golang.org/protobuf/types/known/timestamppb"
	"google.golang.org/protobuf/types/known/wrapperspb"

	"verifharness/monitor"
)

// randomValue builds a google.protobuf.Value of bounded depth covering all six kinds.
func randomValue(r *monitor.Rand, depth int) *structpb.Value {
	k := r.Intn(6)
	if depth <= 0 && k >= 4 {
		k = r.Intn(4)
	}
	switch k {
	case 0:
		return structpb.NewNullValue()
	case 1:
		nums := []float64{0, 1, -1, 0.5, 1e21, -1e-7, 9007199254740993, 4294967296, 3.4028234663852886e38, 1.7976931348623157e308}
		return structpb.NewNumberValue(nums[r.Intn(len(nums))])
	case 2:
		strs := []string{"", "null", "x", "héllo ✓", "\"quoted\"\\", "line\nbreak", "<tag>&", " "}
		return structpb.NewStringValue(strs[r.Intn(len(strs))])
	case 3:
		return structpb.NewBoolValue(r.Bool())
	case 4:
		st := &structpb.Struct{Fields: map[string]*structpb.Value{}}
		for i, n := 0, r.Intn(4); i < n; i++ {
			st.Fields[fmt.Sprintf("k%d", r.Intn(6))] = randomValue(r, depth-1)
		}
		return structpb.NewStructValue(st)
	}
	lv := &structpb.ListValue{}
	for i, n := 0, r.Intn(4); i < n; i++ {
		lv.Values = append(lv.Values, randomValue(r, depth-1))
	}
	return structpb.NewListValue(lv)
}

type wktCase struct {
	class string
	v2    proto.Message
	gogo  func() gogoproto.Message // empty message of the corresponding gogo type
}

func wktCases(r *monitor.Rand, n int) []wktCase {
	gv := func() gogoproto.Message { return &gogotypes.Value{} }
	var cs []wktCase
	for _, v := range []*structpb.Value{structpb.NewNullValue(), structpb.NewNumberValue(0), structpb.NewNumberValue(-2.5), structpb.NewStringValue(""), structpb.NewStringValue("null"),
		structpb.NewBoolValue(false), structpb.NewBoolValue(true), structpb.NewStructValue(&structpb.Struct{}), structpb.NewListValue(&structpb.ListValue{}),
		structpb.NewListValue(&structpb.ListValue{Values: []*structpb.Value{structpb.NewNullValue()}})} {
		cs = append(cs, wktCase{"Value/" + fmt.Sprintf("%T", v.Kind)[len("*structpb.Value_"):], v, gv})
	}
	for i := 0; i < n; i++ {
		v := randomValue(r, 3)
		cs = append(cs, wktCase{"Value/random/" + fmt.Sprintf("%T", v.Kind)[len("*structpb.Value_"):], v, gv})
		if sv := randomValue(r, 3); sv.GetStructValue() != nil {
			cs = append(cs, wktCase{"Struct", sv.GetStructValue(), func() gogoproto.Message { return &gogotypes.Struct{} }})
		} else if sv.GetListValue() != nil {
			cs = append(cs, wktCase{"ListValue", sv.GetListValue(), func() gogoproto.Message { return &gogotypes.ListValue{} }})
		}
	}
	cs = append(cs,
		wktCase{"Struct", &structpb.Struct{}, func() gogoproto.Message { return &gogotypes.Struct{} }},
		wktCase{"ListValue", &structpb.ListValue{}, func() gogoproto.Message { return &gogotypes.ListValue{} }},
		wktCase{"Empty", &emptypb.Empty{}, func() gogoproto.Message { return &gogotypes.Empty{} }},
		wktCase{"FieldMask", &fieldmaskpb.FieldMask{Paths: []string{"a", "b_c.d"}}, func() gogoproto.Message { return &gogotypes.FieldMask{} }},
		wktCase{"FieldMask", &fieldmaskpb.FieldMask{}, func() gogoproto.Message { return &gogotypes.FieldMask{} }},
	)
	for _, s := range []int64{0, 1, -1, 253402300799, -62135596800, 1700000000} {
		for _, ns := range []int32{0, 1, 999999999, 500000000, 120000} {
			cs = append(cs, wktCase{"Timestamp", &timestamppb.Timestamp{Seconds: s, Nanos: ns}, func() gogoproto.Message { return &gogotypes.Timestamp{} }})
		}
	}
	for _, s := range []int64{0, 1, -1, 315576000000, -315576000000, 3600} {
		for _, ns := range []int32{0, 1, 999999999, 500000000} {
			if s < 0 {
				ns = -ns
			}
			cs = append(cs, wktCase{"Duration", &durationpb.Duration{Seconds: s, Nanos: ns}, func() gogoproto.Message { return &gogotypes.Duration{} }})
		}
	}
	cs = append(cs,
		wktCase{"BoolValue", wrapperspb.Bool(false), func() gogoproto.Message { return &gogotypes.BoolValue{} }},
		wktCase{"BoolValue", wrapperspb.Bool(true), func() gogoproto.Message { return &gogotypes.BoolValue{} }},
		wktCase{"Int32Value", wrapperspb.Int32(-2147483648), func() gogoproto.Message { return &gogotypes.Int32Value{} }},
		wktCase{"Int64Value", wrapperspb.Int64(-9223372036854775808), func() gogoproto.Message { return &gogotypes.Int64Value{} }},
		wktCase{"UInt32Value", wrapperspb.UInt32(4294967295), func() gogoproto.Message { return &gogotypes.UInt32Value{} }},
		wktCase{"UInt64Value", wrapperspb.UInt64(18446744073709551615), func() gogoproto.Message { return &gogotypes.UInt64Value{} }},
		wktCase{"UInt64Value", wrapperspb.UInt64(0), func() gogoproto.Message { return &gogotypes.UInt64Value{} }},
		wktCase{"FloatValue", wrapperspb.Float(1.5), func() gogoproto.Message { return &gogotypes.FloatValue{} }},
		wktCase{"DoubleValue", wrapperspb.Double(-1e300), func() gogoproto.Message { return &gogotypes.DoubleValue{} }},
		wktCase{"StringValue", wrapperspb.String(""), func() gogoproto.Message { return &gogotypes.StringValue{} }},
		wktCase{"StringValue", wrapperspb.String("null"), func() gogoproto.Message { return &gogotypes.StringValue{} }},
		wktCase{"BytesValue", wrapperspb.Bytes([]byte{0, 255, 1}), func() gogoproto.Message { return &gogotypes.BytesValue{} }},
		wktCase{"BytesValue", wrapperspb.Bytes(nil), func() gogoproto.Message { return &gogotypes.BytesValue{} }},
	)
	return cs
}

// runC18WKT: well-known types as the root message (their JSON form is not an object: null, numbers, strings,
// arrays, RFC 3339 strings ...), through the adapters of the Google V2 and Gogo runtimes.
func runC18WKT(cfg *config, res *monitor.Result, classes map[string]int64) (evals int64) {
	n := 40
	if cfg.thorough() {
		n = 600
	}
	r := monitor.NewRand(cfg.seed, "c18wkt", cfg.shard)
	indents := []string{"", "  ", "\t"}
	for ci, c := range wktCases(r, n) {
		if !cfg.mine(ci) {
			continue
		}
		wire, err := proto.Marshal(c.v2)
		if err != nil {
			res.Inconc("wkt case does not marshal: " + err.Error())
			continue
		}
		for _, flavour := range []string{"gv2", "gogo"} {
			ops := opsFor(flavour)
			newMsg := func() any { return c.v2.ProtoReflect().New().Interface() }
			if flavour == "gogo" {
				newMsg = func() any { return c.gogo() }
			}
			orig := newMsg()
			if err := ops.unmarshal(wire, orig); err != nil {
				res.Inconc(fmt.Sprintf("wkt case %s cannot be moved to the %s runtime: %v", c.class, flavour, err))
				continue
			}
			name := fmt.Sprintf("%T", orig)
			for oi := 0; oi < 4; oi++ {
				emitZero := oi&1 != 0
				indent := indents[(oi/2+ci)%len(indents)]
				optKey := fmt.Sprintf("zero%v/indent%q", emitZero, indent)
				viol := func(failure, what string, extra map[string]any) {
					w := map[string]any{"message": name, "wire_hex": monitor.Hex(wire), "options": optKey}
					for k, v := range extra {
						w[k] = v
					}
					res.Violate(fmt.Sprintf("C18:%s:wkt-root:%s:%s", flavour, failure, c.class), fmt.Sprintf("%s as root message [%s]: %s", name, optKey, what), w)
				}
				cfg.progress.Set("C18", "wkt-root", flavour, c.class, optKey, monitor.Hex(wire))
				evals++
				var out []byte
				var merr error
				if pi := monitor.Try(func() {
					out, merr = csproto.JSONMarshaler(orig, csproto.JSONIndent(indent), csproto.JSONIncludeZeroValues(emitZero)).MarshalJSON()
				}); pi != nil {
					viol("marshal-panic", "JSONMarshaler panicked: "+pi.Value, nil)
					continue
				}
				rout, rerr := runtimeJSONMarshal(flavour, orig, indent, false, emitZero)
				if merr != nil {
					if rerr == nil {
						viol("marshal-error", "JSONMarshaler failed although the owning runtime's encoder succeeds: "+merr.Error(), nil)
					}
					continue
				}
				// precondition: the value is inside the range the owning runtime's own JSON codec can carry
				// (gogo's decoder e.g. parses durations with time.ParseDuration and overflows beyond ~292 years)
				if rerr != nil {
					continue
				}
				if pre := newMsg(); runtimeJSONUnmarshal(flavour, rout, pre) != nil || !ops.equal(pre, orig) {
					classes["wkt-root-outside-runtime-json-range/"+flavour+"/"+c.class]++
					continue
				}
				js := map[string]any{"json": string(clipJSON(out))}
				if !json.Valid(out) {
					viol("invalid-json", "adapter output is not well-formed JSON", js)
					continue
				}
				if rerr == nil {
					t1, _ := jsonTree(out)
					t2, _ := jsonTree(rout)
					if !reflect.DeepEqual(t1, t2) {
						viol("differs-from-runtime", "adapter output differs (as a JSON tree) from the owning runtime's encoder", map[string]any{"json": string(clipJSON(out)), "runtime_json": string(clipJSON(rout))})
					}
				}
				back := newMsg()
				evals++
				var uerr error
				if pi := monitor.Try(func() { uerr = csproto.JSONUnmarshaler(back).UnmarshalJSON(out) }); pi != nil {
					viol("unmarshal-panic", "JSONUnmarshaler panicked: "+pi.Value, js)
				} else if uerr != nil || !ops.equal(back, orig) {
					viol("adapter-roundtrip", fmt.Sprintf("JSONUnmarshaler does not restore the message from the adapter's own output (err=%v)", uerr), js)
				}
				back2 := newMsg()
				evals++
				if err := runtimeJSONUnmarshal(flavour, out, back2); err != nil || !ops.equal(back2, orig) {
					viol("runtime-decoder-roundtrip", fmt.Sprintf("the owning runtime's JSON decoder does not restore the message from the adapter's output (err=%v)", err), js)
				}
				classes[fmt.Sprintf("wkt-root/%s/%s/%s", flavour, c.class, optKey)]++
				if res.WantSample() && ci%17 == 0 && oi == 0 {
					res.Sample(map[string]any{"family": "well-known type as root message", "message": name, "json": string(clipJSON(out))})
				}
			}
		}
	}
	return evals
}

// runC18GogoImportedEnum: gogo messages with an enum field whose type lives in another gogo package. The harness
// bridge cannot reflect on them (see genwl.targets), so the values are built with Go reflection on the structs;
// the oracle is gogo's own jsonpb and gogo's Equal.
func runC18GogoImportedEnum(cfg *config, res *monitor.Result, classes map[string]int64) (evals int64) {
	pi := 0
	for _, p := range cfg.pkgs {
		if p.Group != "import-dep-enum" || p.Flavour != "gogo" {
			continue
		}
		pi++
		if !cfg.mine(pi) {
			continue
		}
		for _, md := range p.Msgs {
			newMsg := func() any { return p.New(md.FullName()) }
			for vi, grades := range [][]int64{{1}, {-3, 0, 1}, {0}, {}} {
				msg := newMsg()
				sv := reflect.ValueOf(msg).Elem()
				setInt := func(f reflect.Value, v int64) {
					if f.Kind() == reflect.Ptr {
						f.Set(reflect.New(f.Type().Elem()))
						f = f.Elem()
					}
					f.SetInt(v)
				}
				if f := sv.FieldByName("Grade"); f.IsValid() && len(grades) > 0 {
					setInt(f, grades[0])
				}
				if f := sv.FieldByName("Grades"); f.IsValid() {
					for _, g := range grades {
						e := reflect.New(f.Type().Elem()).Elem()
						e.SetInt(g)
						f.Set(reflect.Append(f, e))
					}
				}
				if f := sv.FieldByName("Name"); f.IsValid() {
					if f.Kind() == reflect.Ptr {
						f.Set(reflect.New(f.Type().Elem()))
						f = f.Elem()
					}
					f.SetString(fmt.Sprintf("user-%d", vi))
				}
				if f := sv.FieldByName("Thing"); f.IsValid() && f.Kind() == reflect.Ptr && vi%2 == 0 {
					f.Set(reflect.New(f.Type().Elem()))
				}
				for oi := 0; oi < 4; oi++ {
					enumNums, emitZero := oi&1 != 0, oi&2 != 0
					optKey := fmt.Sprintf("enum%v/zero%v", enumNums, emitZero)
					name := fmt.Sprintf("%s (%s)", md.FullName(), p.GoPkg)
					viol := func(failure, what string, extra map[string]any) {
						w := map[string]any{"package": p.GoPkg, "message": string(md.FullName()), "grades": grades, "options": optKey}
						for k, v := range extra {
							w[k] = v
						}
						res.Violate(fmt.Sprintf("C18:gogo:imported-enum:%s:%s", failure, optKey), fmt.Sprintf("%s [%s]: %s", name, optKey, what), w)
					}
					cfg.progress.Set("C18", "gogo-imported-enum", p.GoPkg, optKey, fmt.Sprint(grades))
					evals++
					var out []byte
					var merr error
					if pi := monitor.Try(func() {
						out, merr = csproto.JSONMarshaler(msg, csproto.JSONUseEnumNumbers(enumNums), csproto.JSONIncludeZeroValues(emitZero)).MarshalJSON()
					}); pi != nil {
						viol("marshal-panic", "JSONMarshaler panicked: "+pi.Value, map[string]any{"frame": pi.Frame})
						continue
					}
					rout, rerr := runtimeJSONMarshal("gogo", msg, "", enumNums, emitZero)
					if merr != nil {
						if rerr == nil {
							viol("marshal-error", "JSONMarshaler failed although gogo's jsonpb succeeds: "+merr.Error(), nil)
						}
						continue
					}
					js := map[string]any{"json": string(clipJSON(out))}
					if rerr == nil {
						t1, _ := jsonTree(out)
						t2, _ := jsonTree(rout)
						if !json.Valid(out) || !reflect.DeepEqual(t1, t2) {
							viol("differs-from-runtime", "adapter output differs (as a JSON tree) from gogo's jsonpb", map[string]any{"json": string(clipJSON(out)), "runtime_json": string(clipJSON(rout))})
						}
					}
					back := newMsg()
					evals++
					var uerr error
					if pi := monitor.Try(func() { uerr = csproto.JSONUnmarshaler(back).UnmarshalJSON(out) }); pi != nil {
						viol("unmarshal-panic", "JSONUnmarshaler panicked: "+pi.Value, js)
					} else if uerr != nil || !gogoproto.Equal(back.(gogoproto.Message), msg.(gogoproto.Message)) {
						viol("adapter-roundtrip", fmt.Sprintf("JSONUnmarshaler does not restore the message from the adapter's own output (err=%v)", uerr), js)
					}
					classes[fmt.Sprintf("gogo-imported-enum/%s/fast=%v/%s/n%d", p.Unit, p.Fast, optKey, len(grades))]++
				}
			}
		}
	}
	return evals
}
