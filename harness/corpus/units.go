package corpus

import (
	"fmt"
	"google.golang.org/protobuf/proto"
	"google.golang.org/protobuf/types/descriptorpb"
)

// field numbers whose keys take 1..5 bytes
var keyNumbers = []int32{1, 15, 16, 2047, 2048, 1<<21 - 1, 1 << 21, 1<<28 - 1, 1 << 28, 1<<29 - 1}

func addColorEnum(b *FileB) *EnumB {
	return b.Enum("Color").V("COLOR_UNSPECIFIED", 0).V("RED", 1).V("GREEN", 2).V("BLUE", 7).V("NEG", -1).V("BIG", 2147483647).V("SMALL", -2147483648)
}

func addChild(b *FileB) *MsgB {
	c := b.Msg("Child")
	l := Optional
	c.F("id", 1, Int32, l).F("name", 2, String, l).F("blob", 3, Bytes, l)
	c.F("nums", 4, Sint64, Repeated)
	return c
}

// AtomUnits returns the systematic feature-matrix corpus.
func AtomUnits() []*Unit {
	var us []*Unit
	for _, syntax := range []string{"proto2", "proto3"} {
		p := "p2"
		if syntax == "proto3" {
			p = "p3"
		}
		// ---- singular scalars (proto2 optional / proto3 implicit presence), enum and message
		{
			b := NewUnit(p+"scalar", syntax, "scalar").Atom("singular-scalars", "singular-enum", "singular-message")
			col := addColorEnum(b)
			ch := addChild(b)
			m := b.Msg("Scalars")
			for i, t := range ScalarTypes {
				m.F("f_"+TypeName(t), int32(i+1), t, Optional)
			}
			m.FEnum("f_enum", 20, col.Full(), Optional)
			m.FMsg("f_msg", 21, ch.Full(), Optional)
			us = append(us, b.Unit())
		}
		// ---- repeated, default packing of the syntax
		{
			b := NewUnit(p+"rep", syntax, "repeated").Atom("repeated-default-packing")
			col := addColorEnum(b)
			ch := addChild(b)
			m := b.Msg("Rep")
			for i, t := range ScalarTypes {
				m.F("r_"+TypeName(t), int32(i+1), t, Repeated)
			}
			m.FEnum("r_enum", 20, col.Full(), Repeated)
			m.FMsg("r_msg", 21, ch.Full(), Repeated)
			us = append(us, b.Unit())
		}
		// ---- repeated with explicit packed=true and packed=false
		for _, packed := range []bool{true, false} {
			name := p + "packed"
			if !packed {
				name = p + "unpacked"
			}
			b := NewUnit(name, syntax, "repeated").Atom(fmt.Sprintf("repeated-packed=%v", packed))
			col := addColorEnum(b)
			m := b.Msg("RepP")
			for i, t := range PackableTypes {
				m.FPacked("r_"+TypeName(t), int32(i+1), t, packed)
			}
			f := m.add("r_enum", 20, Enum, Repeated, col.Full())
			f.Options = m.m.Field[0].Options
			us = append(us, b.Unit())
		}
		// ---- oneofs with a member of every kind
		{
			b := NewUnit(p+"oneof", syntax, "oneof").Atom("oneof-every-kind")
			col := addColorEnum(b)
			ch := addChild(b)
			m := b.Msg("One")
			m.F("before", 1, Int32, Optional)
			o := m.Oneof("choice")
			for i, t := range ScalarTypes {
				o.F("o_"+TypeName(t), int32(i+2), t, "")
			}
			o.F("o_enum", 20, Enum, col.Full())
			o.F("o_msg", 21, Message, ch.Full())
			o2 := m.Oneof("second")
			o2.F("s_a", 30, String, "").F("s_b", 31, Int64, "")
			m.F("after", 40, String, Optional)
			us = append(us, b.Unit())
		}
		// ---- maps: every key kind with a rotating value kind; string key with every value kind
		{
			b := NewUnit(p+"mapkeys", syntax, "map").Atom("map-every-key-kind")
			m := b.Msg("MapKeys")
			n := int32(1)
			for i, kt := range MapKeyTypes {
				if kt == Bool {
					continue // separate unit: known generator problem
				}
				vt := ScalarTypes[(i*2)%len(ScalarTypes)]
				m.Map(fmt.Sprintf("m_%s_%s", TypeName(kt), TypeName(vt)), n, kt, vt, "")
				n++
			}
			us = append(us, b.Unit())
		}
		{
			b := NewUnit(p+"mapvals", syntax, "map").Atom("map-every-value-kind")
			col := addColorEnum(b)
			ch := addChild(b)
			m := b.Msg("MapVals")
			n := int32(1)
			for _, vt := range ScalarTypes {
				m.Map("ms_"+TypeName(vt), n, String, vt, "")
				n++
			}
			m.Map("ms_enum", n, String, Enum, col.Full())
			n++
			m.Map("ms_msg", n, String, Message, ch.Full())
			n++
			m.Map("mi_msg", n, Int32, Message, ch.Full())
			n++
			m.Map("mi_enum", n, Int64, Enum, col.Full())
			us = append(us, b.Unit())
		}
		{
			b := NewUnit(p+"mapbool", syntax, "map-bool").Atom("map-bool-key")
			m := b.Msg("MapBool")
			m.Map("mb_string", 1, Bool, String, "")
			us = append(us, b.Unit())
		}
		// ---- nested, recursive, mutually recursive
		{
			b := NewUnit(p+"nest", syntax, "nested").Atom("nested", "recursive", "mutually-recursive", "empty-message")
			tree := b.Msg("Tree")
			tree.F("label", 1, String, Optional)
			tree.FMsg("left", 2, tree.Full(), Optional).FMsg("right", 3, tree.Full(), Optional)
			tree.FMsg("kids", 4, tree.Full(), Repeated)
			a := b.Msg("Ping")
			bb := b.Msg("Pong")
			a.F("n", 1, Int32, Optional).FMsg("pong", 2, bb.Full(), Optional)
			bb.F("s", 1, String, Optional).FMsg("pings", 2, a.Full(), Repeated)
			outer := b.Msg("Outer")
			in := outer.Nested("Inner")
			in.F("v", 1, Uint64, Optional)
			deep := in.Nested("Deep")
			deep.F("d", 1, Bytes, Optional)
			in.FMsg("deep", 2, deep.Full(), Optional)
			outer.FMsg("inner", 1, in.Full(), Optional).FMsg("inners", 2, in.Full(), Repeated)
			outer.Map("by_name", 3, String, Message, in.Full())
			e := b.Msg("Empty")
			_ = e
			holder := b.Msg("HoldsEmpty")
			holder.FMsg("e", 1, e.Full(), Optional).FMsg("es", 2, e.Full(), Repeated)
			holder.Map("em", 3, Int32, Message, e.Full())
			ho := holder.Oneof("pick")
			ho.F("oe", 4, Message, e.Full()).F("os", 5, String, "")
			us = append(us, b.Unit())
		}
		// ---- field numbers with 1..5 byte keys
		{
			b := NewUnit(p+"nums", syntax, "numbers").Atom("key-lengths-1-5")
			m := b.Msg("Nums")
			for i, n := range keyNumbers {
				t := []FT{Int32, String, Fixed32, Fixed64, Bytes}[i%5]
				m.F(fmt.Sprintf("n%d", i), n, t, Optional)
			}
			m.F("rep_hi", 1<<28+5, Sint32, Repeated)
			us = append(us, b.Unit())
		}
		// ---- enums with negative numbers and aliases
		{
			b := NewUnit(p+"enum", syntax, "enum").Atom("enum-negative", "enum-alias")
			e := b.Enum("Al").AllowAlias()
			e.V("AL_ZERO", 0).V("AL_ONE", 1).V("AL_UNO", 1).V("AL_NEG", -5).V("AL_MIN", -2147483648).V("AL_MAX", 2147483647)
			m := b.Msg("Enums")
			ne := m.Enum("Nested").V("N_ZERO", 0).V("N_TEN", 10)
			m.FEnum("a", 1, e.Full(), Optional).FEnum("as", 2, e.Full(), Repeated).FEnum("n", 3, ne.Full(), Optional)
			m.Map("by_id", 4, Int32, Enum, e.Full())
			o := m.Oneof("pick")
			o.F("oa", 5, Enum, e.Full()).F("on", 6, Enum, ne.Full())
			us = append(us, b.Unit())
		}
		// ---- well-known types
		{
			b := NewUnit(p+"wkt", syntax, "wkt").Atom("well-known-types")
			b.Import("google/protobuf/timestamp.proto").Import("google/protobuf/duration.proto").Import("google/protobuf/wrappers.proto").Import("google/protobuf/any.proto")
			m := b.Msg("Wkt")
			m.FMsg("ts", 1, ".google.protobuf.Timestamp", Optional)
			m.FMsg("dur", 2, ".google.protobuf.Duration", Optional)
			m.FMsg("tss", 3, ".google.protobuf.Timestamp", Repeated)
			m.FMsg("wi", 4, ".google.protobuf.Int64Value", Optional)
			m.FMsg("ws", 5, ".google.protobuf.StringValue", Optional)
			m.FMsg("any", 6, ".google.protobuf.Any", Optional)
			m.Map("by_name", 7, String, Message, ".google.protobuf.Duration")
			o := m.Oneof("pick")
			o.F("ots", 8, Message, ".google.protobuf.Timestamp").F("on", 9, Int32, "")
			us = append(us, b.Unit())
		}
		{
			b := NewUnit(p+"struct", syntax, "wkt").Atom("well-known-struct")
			b.Import("google/protobuf/struct.proto")
			m := b.Msg("HasStruct")
			m.FMsg("st", 1, ".google.protobuf.Struct", Optional)
			m.FMsg("val", 2, ".google.protobuf.Value", Optional)
			m.FEnum("nv", 3, ".google.protobuf.NullValue", Optional)
			us = append(us, b.Unit())
		}
		// ---- a type of another Go package used ONLY as the value of a map (nothing else pulls the import in)
		{
			b := NewUnit(p+"mapwkt", syntax, "wkt").Atom("imported-type-only-as-map-value")
			b.Import("google/protobuf/duration.proto")
			m := b.Msg("MapOnly")
			m.Map("by_name", 1, String, Message, ".google.protobuf.Duration")
			m.F("note", 2, String, Optional)
			us = append(us, b.Unit())
		}
		{
			b := NewUnit(p+"mapnullstruct", syntax, "wkt").Atom("imported-enum-only-as-map-value")
			b.Import("google/protobuf/struct.proto")
			m := b.Msg("MapEnumOnly")
			m.Map("nulls", 1, Int32, Enum, ".google.protobuf.NullValue")
			m.F("note", 2, String, Optional)
			us = append(us, b.Unit())
		}
		// ---- a file that declares no message at all
		{
			b := NewUnit(p+"enumonly", syntax, "enumonly").Atom("file-without-messages")
			b.Enum("Shade").V("SHADE_UNSPECIFIED", 0).V("DARK", 1).V("LIGHT", 2)
			us = append(us, b.Unit())
		}
		// ---- name collisions with generated methods (with specialname for the gogo-style names)
		{
			b := NewUnit(p+"names", syntax, "names").Atom("field-names-colliding-with-methods")
			m := b.Msg("Names")
			m.F("reset", 1, Int32, Optional).F("string", 2, String, Optional).F("descriptor", 3, Bytes, Optional)
			m.F("proto_message", 4, Bool, Optional)
			u := b.Unit()
			u.SpecialNames = []string{"Reset", "String", "Descriptor", "ProtoMessage"}
			us = append(us, u)
		}
		{
			b := NewUnit(p+"namesize", syntax, "names-size").Atom("field-named-size")
			m := b.Msg("NameSize")
			m.F("size", 1, Int32, Optional).F("other", 2, String, Optional)
			u := b.Unit()
			u.SpecialNames = []string{"Size"}
			u.NoGV2 = true
			us = append(us, u)
		}
		{
			b := NewUnit(p+"namemarshal", syntax, "names-marshal").Atom("fields-named-marshal-unmarshal")
			m := b.Msg("NameMarshal")
			m.F("marshal", 1, Int32, Optional).F("unmarshal", 2, String, Optional).F("marshal_to", 3, Int64, Optional)
			u := b.Unit()
			u.SpecialNames = []string{"Marshal", "Unmarshal", "MarshalTo"}
			u.NoGV2 = true
			us = append(us, u)
		}
		{
			// every name protoc-gen-gogo renames but protogen does not: each one needs its own specialname option
			b := NewUnit(p+"namesgogo", syntax, "names-gogo").Atom("fields-named-like-gogo-methods")
			m := b.Msg("NamesGogo")
			m.F("size", 1, Int32, Optional).F("proto_size", 2, Int64, Optional).F("equal", 3, Bool, Optional)
			m.F("go_string", 4, String, Optional).F("verbose_equal", 5, Bytes, Optional).F("marshal_to", 6, Uint32, Optional)
			// the same names on fields of other kinds and cardinalities (every snippet has to apply the renaming)
			part := b.Msg("NamePart")
			part.F("v", 1, Int32, Optional)
			k := b.Msg("NamesGogoKinds")
			k.FMsg("size", 1, part.Full(), Optional).F("proto_size", 2, String, Repeated).FMsg("marshal_to", 3, part.Full(), Repeated)
			k.Map("equal", 4, String, Int32, "").Map("go_string", 5, Int32, Message, part.Full())
			u := b.Unit()
			u.SpecialNames = []string{"Size", "ProtoSize", "Equal", "GoString", "VerboseEqual", "MarshalTo"}
			u.NoGV2 = true
			us = append(us, u)
		}
		// ---- types imported from another generated file whose Go package name is not the last element of its path
		for _, withEnum := range []bool{false, true} {
			name, group := p+"importdep", "import-dep"
			if withEnum {
				// separate unit: protobuf-go's legacy wrapper (which the harness bridge needs for gogo types) cannot
				// load a gogo message with an enum field imported from another gogo package; see genwl.targets
				name, group = p+"importdepenum", "import-dep-enum"
			}
			b := NewUnit(name, syntax, group).Atom("import-of-package-with-explicit-name")
			depPkg := "verif." + name + "dep"
			dep := &descriptorpb.FileDescriptorProto{Name: proto.String(name + "_dep.proto"), Package: proto.String(depPkg)}
			if syntax == "proto3" {
				dep.Syntax = proto.String("proto3")
			}
			lbl := descriptorpb.FieldDescriptorProto_LABEL_OPTIONAL
			dep.MessageType = []*descriptorpb.DescriptorProto{{Name: proto.String("Thing"), Field: []*descriptorpb.FieldDescriptorProto{
				{Name: proto.String("id"), Number: proto.Int32(1), Type: Int32.Enum(), Label: lbl.Enum()},
				{Name: proto.String("label"), Number: proto.Int32(2), Type: String.Enum(), Label: lbl.Enum()},
			}}}
			dep.EnumType = []*descriptorpb.EnumDescriptorProto{{Name: proto.String("Grade"), Value: []*descriptorpb.EnumValueDescriptorProto{
				{Name: proto.String("GRADE_ZERO"), Number: proto.Int32(0)}, {Name: proto.String("GRADE_ONE"), Number: proto.Int32(1)}, {Name: proto.String("GRADE_NEG"), Number: proto.Int32(-3)},
			}}}
			b.Import(dep.GetName())
			m := b.Msg("User")
			m.F("name", 1, String, Optional)
			m.FMsg("thing", 2, "."+depPkg+".Thing", Optional)
			if withEnum {
				m.FEnum("grade", 4, "."+depPkg+".Grade", Optional).FEnum("grades", 5, "."+depPkg+".Grade", Repeated)
			} else {
				m.FMsg("things", 3, "."+depPkg+".Thing", Repeated)
				m.Map("by_name", 6, String, Message, "."+depPkg+".Thing")
			}
			u := b.Unit()
			u.Dep = dep
			us = append(us, u)
		}
		// ---- messages whose short names are equal (filepermessage output names)
		{
			b := NewUnit(p+"samename", syntax, "samename").Atom("equal-short-names")
			a := b.Msg("Alpha")
			ai := a.Nested("Item")
			ai.F("a", 1, Int32, Optional)
			a.FMsg("item", 1, ai.Full(), Optional)
			bt := b.Msg("Beta")
			bi := bt.Nested("Item")
			bi.F("b", 1, String, Optional)
			bt.FMsg("item", 1, bi.Full(), Optional)
			us = append(us, b.Unit())
		}
		{
			b := NewUnit(p+"casename", syntax, "casename").Atom("names-equal-ignoring-case")
			b.Msg("Item").F("a", 1, Int32, Optional)
			b.Msg("ITEM").F("b", 1, Int32, Optional)
			us = append(us, b.Unit())
		}
		{
			// more than two messages taking part in one file-name collision
			b := NewUnit(p+"casename3", syntax, "casename3").Atom("three-way-file-name-collisions")
			b.Msg("Foo").F("a", 1, Int32, Optional)
			b.Msg("FOO").F("b", 1, Int32, Optional)
			b.Msg("FoO").F("c", 1, Int32, Optional)
			b.Msg("Inner").F("d", 1, Int32, Optional)
			b.Msg("A").Nested("Inner").F("e", 1, Int32, Optional)
			b.Msg("B").Nested("Inner").F("f", 1, Int32, Optional)
			us = append(us, b.Unit())
		}
	}
	// ---- proto3 optional (protoc-gen-go only)
	{
		b := NewUnit("p3opt", "proto3", "proto3-optional").Atom("proto3-optional")
		col := addColorEnum(b)
		ch := addChild(b)
		m := b.Msg("Opt3")
		for i, t := range ScalarTypes {
			m.FOpt3("o_"+TypeName(t), int32(i+1), t, "")
		}
		m.FOpt3("o_enum", 20, Enum, col.Full())
		m.FOpt3("o_msg", 21, Message, ch.Full())
		m.F("plain", 22, Int32, Optional)
		o := m.Oneof("real")
		o.F("ra", 23, Int32, "").F("rb", 24, String, "")
		m.Done()
		us = append(us, b.Unit())
	}
	// ---- proto2 required fields at every nesting position
	{
		b := NewUnit("p2req", "proto2", "required").Atom("required-all-kinds", "required-nesting-positions")
		col := addColorEnum(b)
		leaf := b.Msg("Leaf")
		leaf.F("must", 1, Int32, Required).F("may", 2, String, Optional)
		m := b.Msg("Req")
		for i, t := range ScalarTypes {
			m.F("q_"+TypeName(t), int32(i+1), t, Required)
		}
		m.FEnum("q_enum", 20, col.Full(), Required)
		m.FMsg("q_msg", 21, leaf.Full(), Required)
		pos := b.Msg("ReqPositions")
		pos.FMsg("single", 1, leaf.Full(), Optional)
		pos.FMsg("many", 2, leaf.Full(), Repeated)
		pos.Map("by_key", 3, String, Message, leaf.Full())
		o := pos.Oneof("pick")
		o.F("in_oneof", 4, Message, leaf.Full()).F("other", 5, Int32, "")
		pos.F("own", 6, Bool, Required)
		two := b.Msg("ReqTwoLevels")
		mid := b.Msg("Mid")
		mid.FMsg("leaf", 1, leaf.Full(), Required).F("opt", 2, Int64, Optional)
		two.FMsg("mid", 1, mid.Full(), Optional).FMsg("mids", 2, mid.Full(), Repeated)
		small := b.Msg("ReqSmall")
		small.F("a", 1, Int32, Required).F("b", 2, String, Required).F("c", 3, Bytes, Required).F("d", 4, Bool, Optional)
		us = append(us, b.Unit())
	}
	// ---- proto2 extensions, one unit per family so that a failing family takes nothing else down
	// ---- required fields only in nested messages; equally named nested messages of which only one has required fields
	{
		// required fields that declare a default value: the default is what a getter returns, not a value on the wire
		b := NewUnit("p2reqdefault", "proto2", "required-default").Atom("required-fields-with-defaults")
		col := addColorEnum(b)
		rec := b.Msg("Rec")
		rec.F("name", 1, String, Required).F("level", 2, Int32, Required).Default("7", false)
		rec.F("label", 3, String, Required).Default("none", false).F("on", 4, Bool, Required).Default("true", false)
		rec.FEnum("tint", 5, col.Full(), Required).Default("GREEN", false).F("note", 6, String, Optional)
		outer := b.Msg("Outer")
		outer.FMsg("rec", 1, rec.Full(), Optional).FMsg("recs", 2, rec.Full(), Repeated).F("id", 3, Int32, Optional)
		us = append(us, b.Unit())
	}
	{
		b := NewUnit("p2reqnested", "proto2", "required-nested").Atom("required-only-in-nested-messages")
		o := b.Msg("Outer")
		in := o.Nested("Inner")
		in.F("id", 1, Int32, Required).F("note", 2, String, Optional)
		o.FMsg("inner", 1, in.Full(), Optional).F("tag", 2, String, Optional)
		b.Msg("Plain").F("x", 1, Int64, Optional)
		us = append(us, b.Unit())
	}
	{
		// two proto2 files with required fields that end up in ONE Go package
		b := NewUnit("p2reqtwofiles", "proto2", "required-two-files").Atom("two-files-one-go-package")
		dep := &descriptorpb.FileDescriptorProto{Name: proto.String("p2reqtwofiles_dep.proto"), Package: proto.String("verif.p2reqtwofilesdep")}
		lblR, lblO := descriptorpb.FieldDescriptorProto_LABEL_REQUIRED, descriptorpb.FieldDescriptorProto_LABEL_OPTIONAL
		dep.MessageType = []*descriptorpb.DescriptorProto{{Name: proto.String("Part"), Field: []*descriptorpb.FieldDescriptorProto{
			{Name: proto.String("id"), Number: proto.Int32(1), Type: Int32.Enum(), Label: lblR.Enum()},
			{Name: proto.String("note"), Number: proto.Int32(2), Type: String.Enum(), Label: lblO.Enum()},
		}}}
		b.Import(dep.GetName())
		m := b.Msg("Whole")
		m.F("name", 1, String, Required)
		m.FMsg("part", 2, ".verif.p2reqtwofilesdep.Part", Optional)
		m.FMsg("parts", 3, ".verif.p2reqtwofilesdep.Part", Repeated)
		u := b.Unit()
		u.Dep, u.DepSamePackage = dep, true
		us = append(us, u)
	}
	{
		b := NewUnit("p2reqsamename", "proto2", "required-samename").Atom("required-in-one-of-two-equally-named-nested-messages")
		rq := b.Msg("Request")
		rh := rq.Nested("Header")
		rh.F("id", 1, Int32, Required).F("trace", 2, String, Required)
		rq.FMsg("header", 1, rh.Full(), Optional).F("body", 2, Bytes, Optional)
		rs := b.Msg("Response")
		sh := rs.Nested("Header")
		sh.F("code", 1, Int32, Optional)
		rs.FMsg("header", 1, sh.Full(), Optional).F("must", 2, Int32, Required)
		a := b.Msg("Aaa")
		ah := a.Nested("Part")
		ah.F("opt", 1, Int32, Optional)
		a.FMsg("part", 1, ah.Full(), Optional)
		z := b.Msg("Zzz")
		zh := z.Nested("Part")
		zh.F("req", 1, Int32, Required)
		z.FMsg("part", 1, zh.Full(), Optional)
		us = append(us, b.Unit())
	}
	extUnit := func(name, group string, atoms ...string) (*FileB, *MsgB) {
		b := NewUnit(name, "proto2", group).Atom(atoms...)
		base := b.Msg("Base")
		base.F("id", 1, Int32, Optional).ExtRange(100, 1000).ExtRange(1<<21, 1<<21+100)
		return b, base
	}
	{
		b, base := extUnit("p2extscalar", "ext-scalar", "extension-scalars-nested-declared")
		holder := b.Msg("Holder")
		n := int32(100)
		for _, t := range ScalarTypes {
			if t == Uint32 {
				continue // separate unit: known generator problem
			}
			holder.Ext("x_"+TypeName(t), n, t, Optional, "", base.Full())
			n++
		}
		holder.Ext("x_far", 1<<21+1, Int64, Optional, "", base.Full())
		us = append(us, b.Unit())
	}
	{
		b, base := extUnit("p2extu32", "ext-uint32", "extension-uint32")
		b.Msg("Holder").Ext("x_uint32", 100, Uint32, Optional, "", base.Full())
		us = append(us, b.Unit())
	}
	{
		b, base := extUnit("p2extmsg", "ext-message", "extension-message")
		ch := addChild(b)
		b.Msg("Holder").Ext("x_child", 100, Message, Optional, ch.Full(), base.Full())
		us = append(us, b.Unit())
	}
	{
		// two nested messages with the same short name under different parents; only one of them is extended
		b := NewUnit("p2extsamename", "proto2", "ext-samename").Atom("extended-and-plain-message-with-equal-short-names")
		rq := b.Msg("Request")
		ro := rq.Nested("Options")
		ro.F("a", 1, Int32, Optional).ExtRange(100, 200)
		rq.F("id", 1, Int32, Optional) // (the harness bridge sets gogo extensions on top-level values only: Options is not used as a field here)
		rs := b.Msg("Response")
		so := rs.Nested("Options")
		so.F("b", 1, String, Optional)
		rs.FMsg("opts", 1, so.Full(), Optional).FMsg("more", 2, so.Full(), Repeated)
		b.Msg("Holder").Ext("trace_id", 100, Int64, Optional, "", ro.Full()).Ext("trace_tag", 101, String, Optional, "", ro.Full())
		us = append(us, b.Unit())
	}
	{
		// a message field named like the local variables the generated Unmarshal keeps per extension number
		b, base := extUnit("p2extnameclash", "ext-message", "field-named-like-extension-local")
		ch := addChild(b)
		base.FMsg("ext100", 2, ch.Full(), Optional).FMsg("xraw_100", 3, ch.Full(), Optional)
		b.Msg("Holder").Ext("x_child", 100, Message, Optional, ch.Full(), base.Full())
		us = append(us, b.Unit())
	}
	{
		// an extension whose type lives in another Go package, which nothing else in the file uses
		b, base := extUnit("p2extwkt", "ext-message", "extension-of-imported-type")
		b.Import("google/protobuf/duration.proto")
		b.Msg("Holder").Ext("x_dur", 100, Message, Optional, ".google.protobuf.Duration", base.Full())
		us = append(us, b.Unit())
	}
	{
		// the extension's message type has required fields (one of them behind an optional one in field-number order)
		b, base := extUnit("p2extreq", "ext-required", "extension-message-with-required-fields")
		leaf := b.Msg("ReqLeaf")
		leaf.F("may", 1, String, Optional).F("must", 2, Int32, Required).F("also", 3, String, Required)
		h := b.Msg("Holder")
		h.Ext("x_leaf", 100, Message, Optional, leaf.Full(), base.Full())
		h.Ext("x_leaves", 101, Message, Repeated, leaf.Full(), base.Full())
		us = append(us, b.Unit())
	}
	{
		b, base := extUnit("p2extenum", "ext-enum", "extension-enum")
		col := addColorEnum(b)
		b.Msg("Holder").Ext("x_color", 100, Enum, Optional, col.Full(), base.Full())
		us = append(us, b.Unit())
	}
	{
		b, base := extUnit("p2extrep", "ext-repeated", "extension-repeated")
		h := b.Msg("Holder")
		h.Ext("x_ints", 100, Int32, Repeated, "", base.Full()).Ext("x_strs", 101, String, Repeated, "", base.Full())
		h.Ext("x_blobs", 102, Bytes, Repeated, "", base.Full()).Ext("x_fix", 103, Sfixed64, Repeated, "", base.Full())
		col := addColorEnum(b)
		ch := addChild(b)
		h.Ext("x_colors", 104, Enum, Repeated, col.Full(), base.Full()).Ext("x_children", 105, Message, Repeated, ch.Full(), base.Full())
		// the remaining packable kinds (each has its own packed decoder)
		for i, t := range []FT{Sint32, Sint64, Uint32, Uint64, Int64, Bool, Fixed32, Fixed64, Sfixed32, Float, Double} {
			h.Ext("x_rep_"+TypeName(t), int32(110+i), t, Repeated, "", base.Full())
		}
		us = append(us, b.Unit())
	}
	{
		b, base := extUnit("p2extfile", "ext-file", "extension-file-level")
		b.Ext("fx_int", 100, Int32, Optional, "", base.Full()).Ext("fx_str", 101, String, Optional, "", base.Full())
		us = append(us, b.Unit())
	}
	{
		// extensions and ordinary fields with explicit proto2 defaults: an absent one reads as its default through the
		// accessors (gogo/golang GetExtension return (default, nil)) but must not reach the wire
		b, base := extUnit("p2extdefault", "ext-default", "extension-and-field-defaults")
		col := addColorEnum(b)
		base.F("level", 2, Int32, Optional).Default("7", false).F("label", 3, String, Optional).Default("none", false)
		base.F("on", 4, Bool, Optional).Default("true", false).F("ratio", 5, Double, Optional).Default("1.5", false)
		base.FEnum("tint", 6, col.Full(), Optional).Default("GREEN", false)
		h := b.Msg("Holder")
		h.Ext("x_level", 100, Int32, Optional, "", base.Full()).Default("7", true)
		h.Ext("x_label", 101, String, Optional, "", base.Full()).Default("none", true)
		h.Ext("x_on", 102, Bool, Optional, "", base.Full()).Default("true", true)
		h.Ext("x_ratio", 103, Double, Optional, "", base.Full()).Default("1.5", true)
		h.Ext("x_tint", 104, Enum, Optional, col.Full(), base.Full()).Default("GREEN", true)
		h.Ext("x_big", 105, Uint64, Optional, "", base.Full()).Default("18446744073709551615", true)
		h.Ext("x_plain", 106, Int32, Optional, "", base.Full())
		us = append(us, b.Unit())
	}
	{
		// extend blocks declared two and three levels deep
		b, base := extUnit("p2extdeep", "ext-deep", "extension-declared-in-deeply-nested-message")
		h := b.Msg("Holder")
		deep := h.Nested("Deep")
		deep.Ext("deep_int", 100, Int32, Optional, "", base.Full()).Ext("deep_tags", 101, String, Repeated, "", base.Full())
		deeper := deep.Nested("Deeper")
		deeper.Ext("deeper_fix", 102, Fixed64, Optional, "", base.Full())
		deeper.F("z", 1, Int32, Optional)
		us = append(us, b.Unit())
	}
	{
		// a message that merely declares extension ranges, plus an unrelated holder with no extensions
		b, _ := extUnit("p2extnone", "ext-none", "extension-range-without-extensions")
		us = append(us, b.Unit())
	}
	for _, u := range us {
		for _, m := range u.File.MessageType {
			finishSynthetic(m)
		}
	}
	return us
}

func finishSynthetic(m interface{}) {}
