package corpus

import (
	"fmt"
	"google.golang.org/protobuf/encoding/protowire"
	"strings"

	"google.golang.org/protobuf/proto"
	"google.golang.org/protobuf/reflect/protodesc"
	"google.golang.org/protobuf/reflect/protoreflect"
	"google.golang.org/protobuf/reflect/protoregistry"
	"google.golang.org/protobuf/types/descriptorpb"

	// make sure the well-known files are registered
	_ "google.golang.org/protobuf/types/known/anypb"
	_ "google.golang.org/protobuf/types/known/durationpb"
	_ "google.golang.org/protobuf/types/known/structpb"
	_ "google.golang.org/protobuf/types/known/timestamppb"
	_ "google.golang.org/protobuf/types/known/wrapperspb"
)

// Flavours of the three supported runtimes.
var Flavours = []string{"gogo", "gv1", "gv2"}

// OptKeys of the generator option product (apiversion is fixed by the flavour).
var OptKeys = []string{"d", "pm", "us", "pmus"}

// Instance is a unit instantiated for one flavour and option set: own proto package, file name and Go package.
type Instance struct {
	Unit      *Unit
	Flavour   string
	OptKey    string
	GoPkg     string
	ProtoPath string
	File      *descriptorpb.FileDescriptorProto
	Deps      []*descriptorpb.FileDescriptorProto
	// GoName is the name in the package clause of the generated Go package (GoPkg is its directory / import path element)
	GoName string
	// DepPath is the instantiated path of the unit's own dependency file ("" = none); it is part of Deps
	DepPath        string
	Fast           bool
	FilePerMessage bool
	Unsafe         bool
}

// Supported reports whether the unit can be generated for the flavour at all.
func Supported(u *Unit, flavour string) bool {
	if u.GV2Only && flavour != "gv2" {
		return false
	}
	if u.NoGV2 && flavour == "gv2" {
		// field names that collide with the generated methods and that protoc-gen-go does not rename
		// (Size, MarshalTo): no option can make this compile, not part of the supported feature set
		return false
	}
	if flavour == "gv1" && (len(u.File.Dependency) > 0 || u.Dep != nil) {
		// legacy golang/protobuf structs + well-known types of another generation: not instantiated
		return false
	}
	return true
}

// Instantiate clones the unit for a flavour/option set.
func Instantiate(u *Unit, flavour, optKey string) (*Instance, error) {
	in := &Instance{Unit: u, Flavour: flavour, OptKey: optKey}
	in.GoPkg = strings.ToLower(u.Name) + "_" + flavour + "_" + optKey
	// the Go package NAME does not mention the runtime: the same schema generated for two runtimes gives equally named
	// packages and types ("*p2req_d.Leaf" three times in one binary), as it does in a code base that migrates runtimes
	in.GoName = strings.ToLower(u.Name) + "_" + optKey
	in.ProtoPath = "gen/" + in.GoPkg + "/" + u.Name + ".proto"
	in.Fast = !strings.HasPrefix(optKey, "plain")
	in.FilePerMessage = strings.Contains(optKey, "pm")
	in.Unsafe = strings.Contains(optKey, "us")
	f := proto.Clone(u.File).(*descriptorpb.FileDescriptorProto)
	oldPrefix := "." + f.GetPackage() + "."
	newPkg := f.GetPackage() + "." + flavour + optKey
	newPrefix := "." + newPkg + "."
	f.Package = proto.String(newPkg)
	f.Name = proto.String(in.ProtoPath)
	if f.Options == nil {
		f.Options = &descriptorpb.FileOptions{}
	}
	f.Options.GoPackage = proto.String("verifgen/gen/" + in.GoPkg + ";" + in.GoName)
	if optKey == "plainsz" {
		// gogoproto.sizer_all (extension 63020 of FileOptions) = true: protoc-gen-gogo's sizer plug-in adds a Size()
		// method to every message, no Marshal/Unmarshal methods - a flavour csproto.Size/Marshal dispatch differently
		f.Options.ProtoReflect().SetUnknown(protowire.AppendVarint(protowire.AppendTag(nil, 63020, protowire.VarintType), 1))
	}
	var dep *descriptorpb.FileDescriptorProto
	oldDepPrefix, newDepPrefix := "\x00", ""
	if u.Dep != nil {
		dep = proto.Clone(u.Dep).(*descriptorpb.FileDescriptorProto)
		oldDepPrefix = "." + dep.GetPackage() + "."
		newDepPkg := dep.GetPackage() + "." + flavour + optKey
		newDepPrefix = "." + newDepPkg + "."
		in.DepPath = "gen/" + in.GoPkg + "/dep/v2/" + u.Name + "_dep.proto"
		for i, d := range f.Dependency {
			if d == dep.GetName() {
				f.Dependency[i] = in.DepPath
			}
		}
		dep.Package = proto.String(newDepPkg)
		dep.Name = proto.String(in.DepPath)
		dep.Options = &descriptorpb.FileOptions{GoPackage: proto.String("verifgen/gen/" + in.GoPkg + "/dep/v2;deppb")}
		if u.DepSamePackage {
			newPath := "gen/" + in.GoPkg + "/" + u.Name + "_dep.proto"
			for i, d := range f.Dependency {
				if d == in.DepPath {
					f.Dependency[i] = newPath
				}
			}
			in.DepPath = newPath
			dep.Name = proto.String(in.DepPath)
			dep.Options = &descriptorpb.FileOptions{GoPackage: proto.String("verifgen/gen/" + in.GoPkg + ";" + in.GoName)}
		}
	}
	var fixField func(fd *descriptorpb.FieldDescriptorProto)
	fixField = func(fd *descriptorpb.FieldDescriptorProto) {
		if fd.TypeName != nil && strings.HasPrefix(fd.GetTypeName(), oldPrefix) {
			fd.TypeName = proto.String(newPrefix + strings.TrimPrefix(fd.GetTypeName(), oldPrefix))
		}
		if fd.TypeName != nil && strings.HasPrefix(fd.GetTypeName(), oldDepPrefix) {
			fd.TypeName = proto.String(newDepPrefix + strings.TrimPrefix(fd.GetTypeName(), oldDepPrefix))
		}
		if fd.Extendee != nil && strings.HasPrefix(fd.GetExtendee(), oldPrefix) {
			fd.Extendee = proto.String(newPrefix + strings.TrimPrefix(fd.GetExtendee(), oldPrefix))
		}
	}
	var fixMsg func(m *descriptorpb.DescriptorProto)
	fixMsg = func(m *descriptorpb.DescriptorProto) {
		for _, fd := range m.Field {
			fixField(fd)
		}
		for _, fd := range m.Extension {
			fixField(fd)
		}
		for _, n := range m.NestedType {
			fixMsg(n)
		}
	}
	for _, m := range f.MessageType {
		fixMsg(m)
	}
	for _, fd := range f.Extension {
		fixField(fd)
	}
	in.File = f
	// dependencies, transitive, deps first
	seen := map[string]bool{}
	var add func(path string) error
	add = func(path string) error {
		if seen[path] {
			return nil
		}
		seen[path] = true
		fd, err := protoregistry.GlobalFiles.FindFileByPath(path)
		if err != nil {
			return fmt.Errorf("dependency %s: %w", path, err)
		}
		imps := fd.Imports()
		for i := 0; i < imps.Len(); i++ {
			if err := add(imps.Get(i).Path()); err != nil {
				return err
			}
		}
		in.Deps = append(in.Deps, protodesc.ToFileDescriptorProto(fd))
		return nil
	}
	for _, d := range f.Dependency {
		if d == in.DepPath && dep != nil {
			continue
		}
		if err := add(d); err != nil {
			return nil, err
		}
	}
	if dep != nil {
		for _, m := range dep.MessageType {
			fixMsg(m)
		}
		in.Deps = append(in.Deps, dep)
	}
	return in, nil
}

// Validate runs the reference runtime's strict validator over the instance.
func (in *Instance) Validate() (protoreflect.FileDescriptor, error) {
	files := &protoregistry.Files{}
	for _, d := range in.Deps {
		fd, err := protodesc.NewFile(d, files)
		if err != nil {
			return nil, err
		}
		if err := files.RegisterFile(fd); err != nil {
			return nil, err
		}
	}
	return protodesc.NewFile(in.File, files)
}

// FDS returns the serialized FileDescriptorSet (deps first).
func (in *Instance) FDS() ([]byte, error) {
	set := &descriptorpb.FileDescriptorSet{File: append(append([]*descriptorpb.FileDescriptorProto{}, in.Deps...), in.File)}
	return proto.MarshalOptions{Deterministic: true}.Marshal(set)
}

var gogoWKT = []string{"any", "duration", "struct", "timestamp", "wrappers", "empty", "field_mask"}

// BaseParam is the parameter string for the runtime's own generator (protoc-gen-gogo / protoc-gen-go).
func (in *Instance) BaseParam() string {
	p := "paths=source_relative"
	if in.Flavour == "gogo" {
		for _, w := range gogoWKT {
			p += ",Mgoogle/protobuf/" + w + ".proto=github.com/gogo/protobuf/types"
		}
	}
	return p
}

// FastParam is the parameter string for protoc-gen-fastmarshal.
func (in *Instance) FastParam() string {
	p := "paths=source_relative"
	if in.Flavour == "gv2" {
		p += ",apiversion=v2"
	} else {
		p += ",apiversion=v1"
	}
	// boolean options: a set one is spelled in one of the forms strconv.ParseBool accepts, an unset one is either
	// left out or switched off explicitly (picked by the package name, so that every spelling occurs in the corpus)
	h := 0
	for _, c := range in.GoPkg {
		h = h*31 + int(c)
	}
	if h < 0 {
		h = -h
	}
	on := []string{"true", "1", "t", "T", "TRUE", "True"}
	off := []string{"", "", "false", "0", "f", "F", "FALSE", "False"}
	if in.FilePerMessage {
		p += ",filepermessage=" + on[h%len(on)]
	} else if o := off[h%len(off)]; o != "" {
		p += ",filepermessage=" + o
	}
	if in.Unsafe {
		p += ",enableunsafedecode=" + on[(h/7)%len(on)]
	} else if o := off[(h/7)%len(off)]; o != "" {
		p += ",enableunsafedecode=" + o
	}
	for _, n := range in.Unit.SpecialNames {
		p += ",specialname=" + n
	}
	if in.Flavour == "gogo" {
		for _, w := range gogoWKT {
			p += ",Mgoogle/protobuf/" + w + ".proto=github.com/gogo/protobuf/types;types"
		}
	}
	return p
}

// AllFiles returns deps + the unit's file in plug-in order.
func (in *Instance) AllFiles() []*descriptorpb.FileDescriptorProto {
	return append(append([]*descriptorpb.FileDescriptorProto{}, in.Deps...), in.File)
}

// MessageInfo describes one message of the instance for the registry glue.
type MessageInfo struct {
	FullName string
	GoName   string
}

// Messages lists all non-map-entry messages with their Go type names.
func (in *Instance) Messages() []MessageInfo {
	var out []MessageInfo
	var walk func(prefixProto, prefixGo string, m *descriptorpb.DescriptorProto)
	walk = func(prefixProto, prefixGo string, m *descriptorpb.DescriptorProto) {
		if m.GetOptions().GetMapEntry() {
			return
		}
		full := prefixProto + m.GetName()
		goName := prefixGo + GoCamel(m.GetName())
		out = append(out, MessageInfo{FullName: full, GoName: goName})
		for _, n := range m.NestedType {
			walk(full+".", goName+"_", n)
		}
	}
	for _, m := range in.File.MessageType {
		walk(in.File.GetPackage()+".", "", m)
	}
	return out
}

// ExtInfo describes one extension.
type ExtInfo struct {
	FullName string
	GoVar    string
}

// Extensions lists extension descriptor variables.
func (in *Instance) Extensions() []ExtInfo {
	var out []ExtInfo
	pkg := in.File.GetPackage()
	for _, e := range in.File.Extension {
		out = append(out, ExtInfo{FullName: pkg + "." + e.GetName(), GoVar: "E_" + GoCamel(e.GetName())})
	}
	var walk func(prefixProto, prefixGo string, m *descriptorpb.DescriptorProto)
	walk = func(prefixProto, prefixGo string, m *descriptorpb.DescriptorProto) {
		full := prefixProto + m.GetName()
		goName := prefixGo + GoCamel(m.GetName())
		for _, e := range m.Extension {
			out = append(out, ExtInfo{FullName: full + "." + e.GetName(), GoVar: "E_" + goName + "_" + GoCamel(e.GetName())})
		}
		for _, n := range m.NestedType {
			walk(full+".", goName+"_", n)
		}
	}
	for _, m := range in.File.MessageType {
		walk(pkg+".", "", m)
	}
	return out
}
