// Package corpus builds the schema corpus (E2 of DESIGN.md): small FileDescriptorProtos constructed
// programmatically, faithful to what protoc would emit for the corresponding .proto text.
package corpus

import (
	"strings"
	"unicode"

	"google.golang.org/protobuf/proto"
	"google.golang.org/protobuf/types/descriptorpb"
)

type (
	FT = descriptorpb.FieldDescriptorProto_Type
	FL = descriptorpb.FieldDescriptorProto_Label
)

// Short names for field types and labels.
const (
	Double   = descriptorpb.FieldDescriptorProto_TYPE_DOUBLE
	Float    = descriptorpb.FieldDescriptorProto_TYPE_FLOAT
	Int64    = descriptorpb.FieldDescriptorProto_TYPE_INT64
	Uint64   = descriptorpb.FieldDescriptorProto_TYPE_UINT64
	Int32    = descriptorpb.FieldDescriptorProto_TYPE_INT32
	Fixed64  = descriptorpb.FieldDescriptorProto_TYPE_FIXED64
	Fixed32  = descriptorpb.FieldDescriptorProto_TYPE_FIXED32
	Bool     = descriptorpb.FieldDescriptorProto_TYPE_BOOL
	String   = descriptorpb.FieldDescriptorProto_TYPE_STRING
	Message  = descriptorpb.FieldDescriptorProto_TYPE_MESSAGE
	Bytes    = descriptorpb.FieldDescriptorProto_TYPE_BYTES
	Uint32   = descriptorpb.FieldDescriptorProto_TYPE_UINT32
	Enum     = descriptorpb.FieldDescriptorProto_TYPE_ENUM
	Sfixed32 = descriptorpb.FieldDescriptorProto_TYPE_SFIXED32
	Sfixed64 = descriptorpb.FieldDescriptorProto_TYPE_SFIXED64
	Sint32   = descriptorpb.FieldDescriptorProto_TYPE_SINT32
	Sint64   = descriptorpb.FieldDescriptorProto_TYPE_SINT64

	Optional = descriptorpb.FieldDescriptorProto_LABEL_OPTIONAL
	Required = descriptorpb.FieldDescriptorProto_LABEL_REQUIRED
	Repeated = descriptorpb.FieldDescriptorProto_LABEL_REPEATED
)

// ScalarTypes lists the 15 scalar kinds.
var ScalarTypes = []FT{Double, Float, Int32, Int64, Uint32, Uint64, Sint32, Sint64, Fixed32, Fixed64, Sfixed32, Sfixed64, Bool, String, Bytes}

// PackableTypes lists the kinds that may be packed.
var PackableTypes = []FT{Double, Float, Int32, Int64, Uint32, Uint64, Sint32, Sint64, Fixed32, Fixed64, Sfixed32, Sfixed64, Bool}

// MapKeyTypes lists the legal map key kinds.
var MapKeyTypes = []FT{Int32, Int64, Uint32, Uint64, Sint32, Sint64, Fixed32, Fixed64, Sfixed32, Sfixed64, Bool, String}

// TypeName returns the .proto keyword of a scalar type.
func TypeName(t FT) string {
	return strings.ToLower(strings.TrimPrefix(t.String(), "TYPE_"))
}

// Unit is one schema unit: a single .proto file (plus imports of well-known types).
type Unit struct {
	Name   string
	Syntax string
	File   *descriptorpb.FileDescriptorProto
	// Deps are imported well-known files ("google/protobuf/timestamp.proto", ...)
	Atoms []string
	// GV2Only: uses a feature protoc-gen-gogo 1.3.2 cannot generate (proto3 optional)
	GV2Only bool
	// NoGV2: cannot be generated for protoc-gen-go types (see Supported)
	NoGV2 bool
	// Group names the feature group (used to pick the race-build subset)
	Group string
	// SpecialNames to pass to the plug-in by default for this unit ("" = none)
	SpecialNames []string
	// Origin: "atom", "example", "random"
	Origin string
	// Dep, when set, is a second .proto file of the unit that File imports (by Dep's name). It is generated with the
	// runtime's own generator only (plain types) into its own Go package whose NAME differs from the last element
	// of its import path (go_package = ".../dep/v2;deppb"), the way versioned API packages are laid out.
	Dep *descriptorpb.FileDescriptorProto
	// DepSamePackage puts Dep into the SAME Go package (and directory) as the unit's own file, and has the fast-marshal
	// code of both files compiled together - the usual layout of a Go package made from several .proto files
	DepSamePackage bool
}

// FileB builds a file.
type FileB struct {
	u *Unit
}

// NewUnit starts a unit. pkg placeholder and file name are filled per flavour at instantiation.
func NewUnit(name, syntax, group string) *FileB {
	f := &descriptorpb.FileDescriptorProto{
		Name:    proto.String(name + ".proto"),
		Package: proto.String("verif." + name),
	}
	if syntax == "proto3" {
		f.Syntax = proto.String("proto3")
	} // protoc leaves syntax unset for proto2
	return &FileB{u: &Unit{Name: name, Syntax: syntax, File: f, Group: group, Origin: "atom"}}
}

// Unit returns the finished unit.
func (b *FileB) Unit() *Unit { return b.u }

// Atom records a feature atom name.
func (b *FileB) Atom(a ...string) *FileB { b.u.Atoms = append(b.u.Atoms, a...); return b }

// Import adds a dependency.
func (b *FileB) Import(path string) *FileB {
	for _, d := range b.u.File.Dependency {
		if d == path {
			return b
		}
	}
	b.u.File.Dependency = append(b.u.File.Dependency, path)
	return b
}

// MsgB builds a message.
type MsgB struct {
	f      *FileB
	m      *descriptorpb.DescriptorProto
	full   string // fully qualified name with leading dot
	parent *MsgB
	// proto3 optional synthetic oneofs are appended after real ones at Done()
	synthetic []*descriptorpb.FieldDescriptorProto
}

// Msg adds a top-level message.
func (b *FileB) Msg(name string) *MsgB {
	m := &descriptorpb.DescriptorProto{Name: proto.String(name)}
	b.u.File.MessageType = append(b.u.File.MessageType, m)
	return &MsgB{f: b, m: m, full: "." + b.u.File.GetPackage() + "." + name}
}

// Nested adds a nested message.
func (m *MsgB) Nested(name string) *MsgB {
	n := &descriptorpb.DescriptorProto{Name: proto.String(name)}
	m.m.NestedType = append(m.m.NestedType, n)
	return &MsgB{f: m.f, m: n, full: m.full + "." + name, parent: m}
}

// Full returns the fully-qualified type name (with leading dot) for use as a field type.
func (m *MsgB) Full() string { return m.full }

// JSONName is protoc's lowerCamel rule.
func JSONName(name string) string {
	var sb strings.Builder
	up := false
	for _, c := range name {
		if c == '_' {
			up = true
			continue
		}
		if up {
			sb.WriteRune(unicode.ToUpper(c))
			up = false
		} else {
			sb.WriteRune(c)
		}
	}
	return sb.String()
}

func (m *MsgB) add(name string, num int32, t FT, l FL, typeName string) *descriptorpb.FieldDescriptorProto {
	f := &descriptorpb.FieldDescriptorProto{
		Name:     proto.String(name),
		Number:   proto.Int32(num),
		Type:     t.Enum(),
		Label:    l.Enum(),
		JsonName: proto.String(JSONName(name)),
	}
	if typeName != "" {
		f.TypeName = proto.String(typeName)
	}
	m.m.Field = append(m.m.Field, f)
	return f
}

// F adds a scalar field.
func (m *MsgB) F(name string, num int32, t FT, l FL) *MsgB {
	m.add(name, num, t, l, "")
	return m
}

// FPacked adds a repeated scalar field with an explicit [packed=...] option.
func (m *MsgB) FPacked(name string, num int32, t FT, packed bool) *MsgB {
	f := m.add(name, num, t, Repeated, "")
	f.Options = &descriptorpb.FieldOptions{Packed: proto.Bool(packed)}
	return m
}

// FMsg adds a message-typed field.
func (m *MsgB) FMsg(name string, num int32, typeName string, l FL) *MsgB {
	m.add(name, num, Message, l, typeName)
	return m
}

// FEnum adds an enum-typed field.
func (m *MsgB) FEnum(name string, num int32, typeName string, l FL) *MsgB {
	m.add(name, num, Enum, l, typeName)
	return m
}

// FOpt3 adds a proto3 `optional` field (synthetic oneof).
func (m *MsgB) FOpt3(name string, num int32, t FT, typeName string) *MsgB {
	f := m.add(name, num, t, Optional, typeName)
	f.Proto3Optional = proto.Bool(true)
	m.synthetic = append(m.synthetic, f)
	m.f.u.GV2Only = true
	return m
}

// Oneof adds a real oneof; members are added through the returned builder.
type OneofB struct {
	m   *MsgB
	idx int32
}

func (m *MsgB) Oneof(name string) *OneofB {
	m.m.OneofDecl = append(m.m.OneofDecl, &descriptorpb.OneofDescriptorProto{Name: proto.String(name)})
	return &OneofB{m: m, idx: int32(len(m.m.OneofDecl) - 1)}
}

// F adds a oneof member.
func (o *OneofB) F(name string, num int32, t FT, typeName string) *OneofB {
	f := o.m.add(name, num, t, Optional, typeName)
	f.OneofIndex = proto.Int32(o.idx)
	return o
}

// Map adds a map field (nested <CamelName>Entry type with map_entry=true).
func (m *MsgB) Map(name string, num int32, kt FT, vt FT, vTypeName string) *MsgB {
	entryName := camel(name) + "Entry"
	e := &descriptorpb.DescriptorProto{
		Name:    proto.String(entryName),
		Options: &descriptorpb.MessageOptions{MapEntry: proto.Bool(true)},
	}
	e.Field = append(e.Field,
		&descriptorpb.FieldDescriptorProto{Name: proto.String("key"), Number: proto.Int32(1), Type: kt.Enum(), Label: Optional.Enum(), JsonName: proto.String("key")},
		&descriptorpb.FieldDescriptorProto{Name: proto.String("value"), Number: proto.Int32(2), Type: vt.Enum(), Label: Optional.Enum(), JsonName: proto.String("value")})
	if vTypeName != "" {
		e.Field[1].TypeName = proto.String(vTypeName)
	}
	m.m.NestedType = append(m.m.NestedType, e)
	m.add(name, num, Message, Repeated, m.full+"."+entryName)
	return m
}

// ExtRange declares an extension range [lo, hi).
func (m *MsgB) ExtRange(lo, hi int32) *MsgB {
	m.m.ExtensionRange = append(m.m.ExtensionRange, &descriptorpb.DescriptorProto_ExtensionRange{Start: proto.Int32(lo), End: proto.Int32(hi)})
	return m
}

// Ext declares an extension nested in m extending extendee.
func (m *MsgB) Ext(name string, num int32, t FT, l FL, typeName, extendee string) *MsgB {
	f := &descriptorpb.FieldDescriptorProto{Name: proto.String(name), Number: proto.Int32(num), Type: t.Enum(), Label: l.Enum(), Extendee: proto.String(extendee)}
	if typeName != "" {
		f.TypeName = proto.String(typeName)
	}
	m.m.Extension = append(m.m.Extension, f)
	return m
}

// Default sets the proto2 default value (descriptor text form) of the most recently added field or nested extension of m.
func (m *MsgB) Default(v string, ext bool) *MsgB {
	if ext {
		m.m.Extension[len(m.m.Extension)-1].DefaultValue = proto.String(v)
	} else {
		m.m.Field[len(m.m.Field)-1].DefaultValue = proto.String(v)
	}
	return m
}

// Ext declares a file-level extension.
func (b *FileB) Ext(name string, num int32, t FT, l FL, typeName, extendee string) *FileB {
	f := &descriptorpb.FieldDescriptorProto{Name: proto.String(name), Number: proto.Int32(num), Type: t.Enum(), Label: l.Enum(), Extendee: proto.String(extendee)}
	if typeName != "" {
		f.TypeName = proto.String(typeName)
	}
	b.u.File.Extension = append(b.u.File.Extension, f)
	return b
}

// Done finalises a message: synthetic oneofs for proto3 optionals go after the real ones.
func (m *MsgB) Done() *MsgB {
	for _, f := range m.synthetic {
		m.m.OneofDecl = append(m.m.OneofDecl, &descriptorpb.OneofDescriptorProto{Name: proto.String("_" + f.GetName())})
		f.OneofIndex = proto.Int32(int32(len(m.m.OneofDecl) - 1))
	}
	m.synthetic = nil
	return m
}

// EnumB builds an enum.
type EnumB struct {
	e    *descriptorpb.EnumDescriptorProto
	full string
}

// Enum adds a top-level enum.
func (b *FileB) Enum(name string) *EnumB {
	e := &descriptorpb.EnumDescriptorProto{Name: proto.String(name)}
	b.u.File.EnumType = append(b.u.File.EnumType, e)
	return &EnumB{e: e, full: "." + b.u.File.GetPackage() + "." + name}
}

// Enum adds a nested enum.
func (m *MsgB) Enum(name string) *EnumB {
	e := &descriptorpb.EnumDescriptorProto{Name: proto.String(name)}
	m.m.EnumType = append(m.m.EnumType, e)
	return &EnumB{e: e, full: m.full + "." + name}
}

// V adds a value.
func (e *EnumB) V(name string, num int32) *EnumB {
	e.e.Value = append(e.e.Value, &descriptorpb.EnumValueDescriptorProto{Name: proto.String(name), Number: proto.Int32(num)})
	return e
}

// AllowAlias sets allow_alias.
func (e *EnumB) AllowAlias() *EnumB {
	e.e.Options = &descriptorpb.EnumOptions{AllowAlias: proto.Bool(true)}
	return e
}

// Full returns the fully-qualified name with leading dot.
func (e *EnumB) Full() string { return e.full }

func camel(s string) string {
	// protoc's ToCamelCase with capitalised first letter
	var sb strings.Builder
	up := true
	for _, c := range s {
		if c == '_' {
			up = true
			continue
		}
		if up {
			sb.WriteRune(unicode.ToUpper(c))
			up = false
		} else {
			sb.WriteRune(c)
		}
	}
	return sb.String()
}

// GoCamel is protoc-gen-go's GoCamelCase for identifiers made of letters, digits and underscores.
func GoCamel(s string) string {
	var b []byte
	for i := 0; i < len(s); i++ {
		c := s[i]
		switch {
		case c == '.' && i+1 < len(s) && isLower(s[i+1]):
		case c == '.':
			b = append(b, '_')
		case c == '_' && (i == 0 || s[i-1] == '.'):
			b = append(b, 'X')
		case c == '_' && i+1 < len(s) && isLower(s[i+1]):
		case isDigit(c):
			b = append(b, c)
		default:
			if isLower(c) {
				c -= 'a' - 'A'
			}
			b = append(b, c)
			for ; i+1 < len(s) && isLower(s[i+1]); i++ {
				b = append(b, s[i+1])
			}
		}
	}
	return string(b)
}

func isLower(c byte) bool { return 'a' <= c && c <= 'z' }
func isDigit(c byte) bool { return '0' <= c && c <= '9' }
