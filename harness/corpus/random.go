package corpus

// RandomUnits composes n seeded random schemas from the feature atoms (filled in later).
func RandomUnits(n int, seed int64) []*Unit { return nil }
