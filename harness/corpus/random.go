package corpus

import (
	"fmt"

	"google.golang.org/protobuf/proto"
	"google.golang.org/protobuf/types/descriptorpb"
)

// small deterministic PRNG (the corpus package does not depend on the monitor package)
type rng struct{ s uint64 }

func (r *rng) next() uint64 {
	r.s += 0x9E3779B97F4A7C15
	z := r.s
	z = (z ^ (z >> 30)) * 0xBF58476D1CE4E5B9
	z = (z ^ (z >> 27)) * 0x94D049BB133111EB
	return z ^ (z >> 31)
}
func (r *rng) intn(n int) int       { return int(r.next() % uint64(n)) }
func (r *rng) chance(a, b int) bool { return r.intn(b) < a }

// RandomUnits composes n seeded random schemas from the feature atoms: 2-5 messages of up to 10 fields,
// random kinds, cardinalities, packing, maps, oneofs, nesting, recursion and field numbers.
// Extensions are left to the systematic units (the generated extension code is a known finding).
func RandomUnits(n int, seed int64) []*Unit {
	var out []*Unit
	for i := 0; i < n; i++ {
		r := &rng{s: uint64(seed)*7919 + uint64(i)*104729 + 12345}
		syntax := "proto3"
		if r.chance(1, 2) {
			syntax = "proto2"
		}
		name := fmt.Sprintf("rnd%02d", i)
		b := NewUnit(name, syntax, "random")
		b.u.Origin = "random"
		b.Atom("random-composition")
		en := b.Enum("Kind").V("KIND_ZERO", 0).V("KIND_A", 1).V("KIND_B", 5).V("KIND_NEG", -3)
		nm := 2 + r.intn(4)
		var msgs []*MsgB
		for mi := 0; mi < nm; mi++ {
			var m *MsgB
			if mi > 0 && r.chance(1, 3) {
				m = msgs[r.intn(len(msgs))].Nested(fmt.Sprintf("N%d", mi))
			} else {
				m = b.Msg(fmt.Sprintf("M%d", mi))
			}
			msgs = append(msgs, m)
		}
		for mi, m := range msgs {
			used := map[int32]bool{}
			num := func() int32 {
				for {
					var v int32
					switch r.intn(6) {
					case 0:
						v = int32(16 + r.intn(2000))
					case 1:
						v = int32(2048 + r.intn(1<<20))
					case 2:
						v = int32(1<<28 + r.intn(1000))
					default:
						v = int32(1 + r.intn(15))
					}
					if v >= 19000 && v <= 19999 || used[v] {
						continue
					}
					used[v] = true
					return v
				}
			}
			nf := 1 + r.intn(10)
			var oneof *OneofB
			var pending []oneofMember
			for fi := 0; fi < nf; fi++ {
				fname := fmt.Sprintf("f%d_%d", mi, fi)
				t := ScalarTypes[r.intn(len(ScalarTypes))]
				typeName := ""
				switch r.intn(8) {
				case 0:
					t, typeName = Enum, en.Full()
				case 1, 2:
					// reference to any message of the unit (self reference = recursion)
					t, typeName = Message, msgs[r.intn(len(msgs))].Full()
				}
				switch c := r.intn(10); {
				case c < 4: // singular
					if t == Message {
						m.FMsg(fname, num(), typeName, Optional)
					} else if t == Enum {
						m.FEnum(fname, num(), typeName, Optional)
					} else if syntax == "proto2" && r.chance(1, 8) {
						m.F(fname, num(), t, Required)
					} else {
						m.F(fname, num(), t, Optional)
					}
				case c < 7: // repeated
					f := m.add(fname, num(), t, Repeated, typeName)
					if t != Message && t != String && t != Bytes && r.chance(1, 2) {
						f.Options = &descriptorpb.FieldOptions{Packed: proto.Bool(r.chance(1, 2))}
					}
				case c < 8: // map
					kt := MapKeyTypes[r.intn(len(MapKeyTypes))]
					m.Map(fname, num(), kt, t, typeName)
				default: // oneof member (declared together after the other fields: members must be consecutive)
					pending = append(pending, oneofMember{fname, num(), t, typeName})
				}
			}
			if len(pending) > 0 {
				oneof = m.Oneof(fmt.Sprintf("pick%d", mi))
				for _, pm := range pending {
					oneof.F(pm.name, pm.num, pm.t, pm.typeName)
				}
			}
		}
		out = append(out, b.Unit())
	}
	return out
}

type oneofMember struct {
	name     string
	num      int32
	t        FT
	typeName string
}
