package corpus

// AllUnits returns the corpus for a tier: feature atoms, then seeded random units.
func AllUnits(tier string, seed int64) []*Unit {
	us := AtomUnits()
	n := 6
	if tier == "thorough" {
		n = 40
	}
	us = append(us, RandomUnits(n, seed)...)
	return us
}
