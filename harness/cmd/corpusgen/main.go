// corpusgen instantiates the schema corpus, drives the protoc plug-ins (the runtime's own generator and
// protoc-gen-fastmarshal built from /repo's working tree), writes the generated packages plus registry
// glue into a scratch module, compiles them, and writes gen-report.json (the raw observations C16 judges,
// and the list of packages the behavioural checks may link).
package main

import (
	"bytes"
	"encoding/json"
	"flag"
	"fmt"
	"go/parser"
	"go/token"
	"os"
	"os/exec"
	"path/filepath"
	"regexp"
	"sort"
	"strings"
	"sync"

	"verifharness/corpus"
	"verifharness/plugindrv"
)

// PkgReport is what was observed for one instance.
type PkgReport struct {
	Pkg            string   `json:"pkg"`
	Unit           string   `json:"unit"`
	Flavour        string   `json:"flavour"`
	OptKey         string   `json:"optkey"`
	Group          string   `json:"group"`
	Origin         string   `json:"origin"`
	Syntax         string   `json:"syntax"`
	Atoms          []string `json:"atoms"`
	FastParam      string   `json:"fast_param,omitempty"`
	BaseError      string   `json:"base_error,omitempty"` // the runtime's own generator failed (not csproto's business)
	FastError      string   `json:"fast_error,omitempty"` // CodeGeneratorResponse.error or crash of protoc-gen-fastmarshal
	FastCrash      bool     `json:"fast_crash,omitempty"`
	Files          []string `json:"files,omitempty"` // names emitted by protoc-gen-fastmarshal
	DuplicateNames []string `json:"duplicate_names,omitempty"`
	BadNames       []string `json:"bad_names,omitempty"`
	// MultiFile: result of generating the unit's dependency file and its main file in ONE request ("" = not tried / same output)
	MultiFile     string   `json:"multi_file,omitempty"`
	Deterministic bool     `json:"deterministic"`
	ParseErrors   []string `json:"parse_errors,omitempty"`
	CompileOK     bool     `json:"compile_ok"`
	CompileError  string   `json:"compile_error,omitempty"`
	BaseCompileOK bool     `json:"base_compile_ok"` // the package without the fast-marshal files compiles
	Linked        bool     `json:"linked"`
}

type job struct {
	in  *corpus.Instance
	rep *PkgReport
}

func main() {
	var (
		out     = flag.String("out", "", "output module directory")
		fm      = flag.String("fm", "", "path of protoc-gen-fastmarshal built from the tree under test")
		gogoBin = flag.String("gogo", "", "path of protoc-gen-gogo")
		goBin   = flag.String("gogen", "", "path of protoc-gen-go")
		mode    = flag.String("mode", "behave", "behave: default options everywhere + other option tuples on a rotating third; full: complete option product; race: one unit per feature group, default options")
		tier    = flag.String("tier", "quick", "quick|thorough")
		seed    = flag.Int64("seed", 1, "VERIF_SEED")
		plain   = flag.Bool("plain", true, "also generate plain (no fast-marshal) packages")
		harness = flag.String("harness", "", "path of the harness module")
		repo    = flag.String("repo", "/repo", "path of csproto")
		only    = flag.String("only", "", "comma separated unit names (debugging)")
	)
	flag.Parse()
	units := corpus.AllUnits(*tier, *seed)
	if *only != "" {
		keep := map[string]bool{}
		for _, n := range strings.Split(*only, ",") {
			keep[n] = true
		}
		var f []*corpus.Unit
		for _, u := range units {
			if keep[u.Name] {
				f = append(f, u)
			}
		}
		units = f
	}
	var jobs []*job
	seenGroup := map[string]bool{}
	for ui, u := range units {
		if *mode == "race" {
			if seenGroup[u.Group] || u.Origin == "random" {
				continue
			}
			seenGroup[u.Group] = true
		}
		for _, fl := range corpus.Flavours {
			if !corpus.Supported(u, fl) {
				continue
			}
			keys := []string{"d"}
			switch *mode {
			case "full":
				keys = corpus.OptKeys
			case "behave":
				// the per-message template carries its own copy of the top-level methods: every unit gets both
				// layouts; the unsafe-decode variants go to a third of the units (quick) or to all (thorough)
				keys = []string{"d", "pm"}
				if *tier == "thorough" || (ui+int(*seed))%3 == 0 {
					keys = corpus.OptKeys
				}
			}
			if *plain {
				keys = append(keys, "plain")
				if fl == "gogo" && u.Dep == nil {
					keys = append(keys, "plainsz") // gogo types with a generated Size() but no Marshal()/Unmarshal()
				}
			}
			for _, k := range keys {
				in, err := corpus.Instantiate(u, fl, k)
				if err != nil {
					fatal("instantiate %s/%s/%s: %v", u.Name, fl, k, err)
				}
				if _, err := in.Validate(); err != nil {
					fatal("unit %s is not a valid descriptor (harness fault): %v", in.GoPkg, err)
				}
				jobs = append(jobs, &job{in: in, rep: &PkgReport{Pkg: in.GoPkg, Unit: u.Name, Flavour: fl, OptKey: k, Group: u.Group, Origin: u.Origin, Syntax: u.Syntax, Atoms: u.Atoms}})
			}
		}
	}
	must(os.MkdirAll(filepath.Join(*out, "gen"), 0o755))
	// generate in parallel
	var wg sync.WaitGroup
	sem := make(chan struct{}, 16)
	for _, j := range jobs {
		wg.Add(1)
		sem <- struct{}{}
		go func(j *job) {
			defer wg.Done()
			defer func() { <-sem }()
			generate(j, *out, *fm, *gogoBin, *goBin)
		}(j)
	}
	wg.Wait()
	writeModule(*out, *harness, *repo)
	compile(jobs, *out)
	// packages to link: those that compile; a fast package that does not compile is replaced by nothing
	var linked []string
	for _, j := range jobs {
		if j.rep.CompileOK && j.rep.BaseError == "" && j.rep.FastError == "" && len(j.rep.DuplicateNames) == 0 {
			j.rep.Linked = true
			linked = append(linked, j.rep.Pkg)
		}
	}
	sort.Strings(linked)
	var mainSrc bytes.Buffer
	mainSrc.WriteString("// generated by corpusgen\npackage main\n\nimport (\n\t\"verifharness/genwl\"\n")
	for _, p := range linked {
		fmt.Fprintf(&mainSrc, "\t_ \"verifgen/gen/%s\"\n", p)
	}
	mainSrc.WriteString(")\n\nfunc main() { genwl.Main() }\n")
	must(os.WriteFile(filepath.Join(*out, "main.go"), mainSrc.Bytes(), 0o644))
	reps := make([]*PkgReport, len(jobs))
	for i, j := range jobs {
		reps[i] = j.rep
	}
	b, _ := json.MarshalIndent(map[string]any{"packages": reps, "mode": *mode, "tier": *tier, "seed": *seed}, "", " ")
	must(os.WriteFile(filepath.Join(*out, "gen-report.json"), b, 0o644))
	fmt.Printf("corpusgen: %d instances, %d linked\n", len(jobs), len(linked))
}

func fatal(f string, a ...any) {
	fmt.Fprintf(os.Stderr, "corpusgen: "+f+"\n", a...)
	os.Exit(3)
}

func must(err error) {
	if err != nil {
		fatal("%v", err)
	}
}

var nameRe = regexp.MustCompile(`^[a-z0-9_/]+\.pb\.fm\.go$`)

func generate(j *job, out, fm, gogoBin, goBin string) {
	in, rep := j.in, j.rep
	dir := filepath.Join(out, "gen", in.GoPkg)
	must(os.MkdirAll(dir, 0o755))
	// 1. the runtime's own generator
	bin := gogoBin
	if in.Flavour == "gv2" {
		bin = goBin
	}
	base := plugindrv.Run(bin, in.AllFiles(), []string{in.ProtoPath}, in.BaseParam())
	switch {
	case base.ExecErr != nil:
		rep.BaseError = "crash: " + base.ExecErr.Error() + " " + clip(base.Stderr)
	case base.Response.Error != nil:
		rep.BaseError = base.Response.GetError()
	}
	if rep.BaseError != "" {
		return
	}
	files := base.Response.File
	if in.DepPath != "" {
		// the unit's own dependency: plain types in their own package directory
		depRun := plugindrv.Run(bin, in.AllFiles(), []string{in.DepPath}, in.BaseParam())
		switch {
		case depRun.ExecErr != nil:
			rep.BaseError = "crash (dependency file): " + depRun.ExecErr.Error() + " " + clip(depRun.Stderr)
		case depRun.Response.Error != nil:
			rep.BaseError = "dependency file: " + depRun.Response.GetError()
		}
		if rep.BaseError != "" {
			return
		}
		must(os.MkdirAll(filepath.Join(out, filepath.Dir(in.DepPath)), 0o755))
		files = append(files, depRun.Response.File...)
	}
	for _, f := range files {
		content := f.GetContent()
		if in.Flavour == "gv1" {
			content = strings.ReplaceAll(content, `"github.com/gogo/protobuf/proto"`, `"github.com/golang/protobuf/proto"`)
			content = strings.ReplaceAll(content, "GoGoProtoPackageIsVersion3", "ProtoPackageIsVersion3")
		}
		must(os.WriteFile(filepath.Join(out, f.GetName()), []byte(content), 0o644))
	}
	writeGlue(in, dir)
	if !in.Fast {
		rep.Deterministic = true
		return
	}
	// 2. protoc-gen-fastmarshal, twice on the identical request
	rep.FastParam = in.FastParam()
	r1 := plugindrv.Run(fm, in.AllFiles(), []string{in.ProtoPath}, in.FastParam())
	r2 := plugindrv.Run(fm, in.AllFiles(), []string{in.ProtoPath}, in.FastParam())
	switch {
	case r1.ExecErr != nil:
		rep.FastCrash = true
		rep.FastError = "plug-in crashed: " + r1.ExecErr.Error() + " " + clip(r1.Stderr)
	case r1.Response.Error != nil:
		rep.FastError = r1.Response.GetError()
	}
	rep.Deterministic = bytes.Equal(r1.Raw, r2.Raw)
	if rep.FastError != "" {
		return
	}
	if in.DepPath != "" {
		// protoc hands a plug-in all files of one invocation in one request: the files emitted for the main file
		// must not depend on what else is generated in the same request
		r3 := plugindrv.Run(fm, in.AllFiles(), []string{in.DepPath, in.ProtoPath}, in.FastParam())
		switch {
		case r3.ExecErr != nil:
			rep.MultiFile = "plug-in crashed on a request with two files to generate: " + r3.ExecErr.Error() + " " + clip(r3.Stderr)
		case r3.Response.Error != nil:
			rep.MultiFile = "plug-in failed on a request with two files to generate: " + r3.Response.GetError()
		default:
			got := map[string]string{}
			for _, f := range r3.Response.File {
				got[f.GetName()] = f.GetContent()
			}
			if in.Unit.DepSamePackage {
				// the fast-marshal files of the dependency belong to the same Go package: they are compiled with the rest
				for _, f := range r3.Response.File {
					if strings.HasPrefix(f.GetName(), strings.TrimSuffix(in.DepPath, ".proto")) {
						must(os.WriteFile(filepath.Join(out, f.GetName()), []byte(f.GetContent()), 0o644))
					}
				}
			}
			for _, f := range r1.Response.File {
				if c, ok := got[f.GetName()]; !ok {
					rep.MultiFile = "file " + f.GetName() + " is missing when the dependency is generated in the same request"
					break
				} else if c != f.GetContent() {
					rep.MultiFile = "content of " + f.GetName() + " differs when the dependency is generated in the same request"
					break
				}
			}
		}
	}
	seen := map[string]bool{}
	prefix := strings.TrimSuffix(in.ProtoPath, ".proto")
	for _, f := range r1.Response.File {
		name := f.GetName()
		rep.Files = append(rep.Files, name)
		if seen[name] {
			rep.DuplicateNames = append(rep.DuplicateNames, name)
			continue // keep the first content; the collision itself is the finding
		}
		seen[name] = true
		okName := name == prefix+".pb.fm.go"
		if in.FilePerMessage {
			okName = strings.HasPrefix(name, prefix+"_") && nameRe.MatchString(name)
		}
		if !okName {
			rep.BadNames = append(rep.BadNames, name)
		}
		if _, err := parser.ParseFile(token.NewFileSet(), name, f.GetContent(), parser.AllErrors); err != nil {
			rep.ParseErrors = append(rep.ParseErrors, name+": "+clip(err.Error()))
		}
		target := filepath.Join(out, name)
		if !strings.HasPrefix(filepath.Clean(target), filepath.Clean(dir)+string(filepath.Separator)) {
			// never write outside the package directory
			rep.BadNames = append(rep.BadNames, name+" (outside package directory)")
			continue
		}
		must(os.WriteFile(target, []byte(f.GetContent()), 0o644))
	}
}

func clip(s string) string {
	if len(s) > 600 {
		return s[:600] + "..."
	}
	return s
}

func writeGlue(in *corpus.Instance, dir string) {
	fds, err := in.FDS()
	must(err)
	var sb bytes.Buffer
	fmt.Fprintf(&sb, "// generated by corpusgen\npackage %s\n\nimport \"verifharness/registry\"\n\nfunc init() {\n\tregistry.Register(&registry.Package{\n", in.GoName)
	fmt.Fprintf(&sb, "\t\tUnit: %q, Flavour: %q, OptKey: %q, GoPkg: %q, Group: %q, Origin: %q, Syntax: %q,\n", in.Unit.Name, in.Flavour, in.OptKey, in.GoPkg, in.Unit.Group, in.Unit.Origin, in.Unit.Syntax)
	fmt.Fprintf(&sb, "\t\tAtoms: %#v,\n\t\tFast: %v, FilePerMessage: %v, UnsafeDecode: %v,\n", in.Unit.Atoms, in.Fast, in.FilePerMessage, in.Unsafe)
	fmt.Fprintf(&sb, "\t\tFDS: []byte(%q),\n\t\tMessages: []registry.Message{\n", string(fds))
	for _, m := range in.Messages() {
		fmt.Fprintf(&sb, "\t\t\t{FullName: %q, New: func() any { return new(%s) }},\n", m.FullName, m.GoName)
	}
	sb.WriteString("\t\t},\n\t\tExtensions: []registry.Extension{\n")
	for _, e := range in.Extensions() {
		fmt.Fprintf(&sb, "\t\t\t{FullName: %q, Desc: %s},\n", e.FullName, e.GoVar)
	}
	sb.WriteString("\t\t},\n\t})\n}\n")
	must(os.WriteFile(filepath.Join(dir, "zz_register.go"), sb.Bytes(), 0o644))
}

func writeModule(out, harness, repo string) {
	mod := fmt.Sprintf(`module verifgen

go 1.21

require (
	github.com/CrowdStrike/csproto v0.0.0
	github.com/gogo/protobuf v1.3.2
	github.com/golang/protobuf v1.5.4
	google.golang.org/protobuf v1.36.4
	verifharness v0.0.0
)

replace github.com/CrowdStrike/csproto => %s

replace verifharness => %s
`, repo, harness)
	must(os.WriteFile(filepath.Join(out, "go.mod"), []byte(mod), 0o644))
	sum, err := os.ReadFile(filepath.Join(harness, "go.sum"))
	must(err)
	must(os.WriteFile(filepath.Join(out, "go.sum"), sum, 0o644))
}

var pkgHdr = regexp.MustCompile(`(?m)^# verifgen/gen/(\S+)`)

// compile builds every generated package; a package whose fast-marshal files do not compile is built
// again without them to tell a generator defect from a fault of the base code / glue.
func compile(jobs []*job, out string) {
	run := func(tags string) map[string]string {
		args := []string{"build", "-tags", "verif " + tags, "./gen/..."}
		cmd := exec.Command("go", args...)
		cmd.Dir = out
		var buf bytes.Buffer
		cmd.Stdout = &buf
		cmd.Stderr = &buf
		_ = cmd.Run()
		text := buf.String()
		errs := map[string]string{}
		idx := pkgHdr.FindAllStringSubmatchIndex(text, -1)
		for i, m := range idx {
			end := len(text)
			if i+1 < len(idx) {
				end = idx[i+1][0]
			}
			errs[text[m[2]:m[3]]] = clip(text[m[1]:end])
		}
		if len(idx) == 0 && strings.TrimSpace(text) != "" && !strings.Contains(text, "go: downloading") {
			errs["*"] = clip(text)
		}
		return errs
	}
	errs := run("")
	if e, ok := errs["*"]; ok {
		fatal("go build of the generated module failed as a whole: %s", e)
	}
	var failed []*job
	for _, j := range jobs {
		if j.rep.BaseError != "" {
			continue
		}
		if e, bad := errs[j.rep.Pkg]; bad {
			j.rep.CompileError = e
			failed = append(failed, j)
		} else {
			j.rep.CompileOK = true
			j.rep.BaseCompileOK = true
		}
	}
	// second pass for failed fast packages: move the .pb.fm.go files away and rebuild
	if len(failed) > 0 {
		for _, j := range failed {
			dir := filepath.Join(out, "gen", j.rep.Pkg)
			ents, _ := os.ReadDir(dir)
			for _, e := range ents {
				if strings.HasSuffix(e.Name(), ".pb.fm.go") {
					_ = os.Rename(filepath.Join(dir, e.Name()), filepath.Join(dir, e.Name()+".rejected"))
				}
			}
		}
		errs2 := run("")
		for _, j := range failed {
			_, bad := errs2[j.rep.Pkg]
			j.rep.BaseCompileOK = !bad
		}
		// failed packages stay out of the link set (their directory is removed so that ./gen/... stays buildable)
		for _, j := range failed {
			_ = os.RemoveAll(filepath.Join(out, "gen", j.rep.Pkg))
		}
	}
}
