package main

import (
	"fmt"

	"github.com/CrowdStrike/csproto/lazyproto"

	"verifharness/monitor"
)

// C10 (lazy half): in safe mode every value obtained from a lazy decode result stays unchanged when the
// caller overwrites, truncates or reuses the input buffer.
func runC10(cfg *config, res *monitor.Result) {
	n := 10000
	if cfg.thorough() {
		n = 150000
	}
	r := monitor.NewRand(cfg.seed, "c10lazy", cfg.shard)
	// the exerciser judges against the C13 oracle; its own verdicts go to a scratch result (they are C13's
	// business), only alias-specific observations are reported for C10
	scratch := monitor.New("C13-in-C10", cfg.tier, cfg.seed, "scratch")
	x := &exerciser{res: scratch, prop: "C10", classes: map[string]int64{}}
	report := &exerciser{res: res, prop: "C10", classes: map[string]int64{}}
	for i := 0; i < n/cfg.nshard; i++ {
		orig, _ := genMessage(r, genOpts{maxFields: 10, depth: 2, tagPool: defaultTagPool, mark: 'k'})
		lvl := walkLevel(orig)
		if !lvl.wellFormed || len(lvl.mixed) > 0 || len(orig) == 0 {
			continue
		}
		def := genDef(r, lvl, defaultTagPool, 2)
		for _, ep := range entryPoints {
			if ep.fast {
				continue // the caller opted into aliasing
			}
			buf := make([]byte, len(orig), len(orig)+64)
			copy(buf, orig)
			cfg.progress.Set("c10", ep.name, defString(def), monitor.Hex(orig))
			x.input, x.def, x.mode, x.entry = orig, def, "safe", "lazy-"+ep.name
			dr, closeFn, err := decodeVia(ep, buf, def)
			if err != nil {
				continue // C13's business
			}
			report.input, report.def, report.mode, report.entry = orig, def, "safe", "lazy-"+ep.name
			x.keep = true
			x.handed = nil
			x.violated = false
			x.result(dr, lvl, def, nil, false, 2)
			cleanBefore := !x.violated
			handed := x.handed
			x.handed = nil
			x.keep = false
			hasBlob := len(handed) > 0
			check := func(stage string) {
				for hi := range handed {
					x.evals++
					if !handed[hi].intact() {
						report.viol("lazy-alias", stage, fmt.Sprintf("value %s obtained from a safe-mode lazy result changed after the caller %s", handed[hi].what, stage), nil, nil)
						handed[hi].snap = deepCopy(handed[hi].live) // report once per stage
					}
				}
				if hasBlob {
					x.classes["lazy/"+ep.name+"/"+stage]++
				}
			}
			for pi, pass := range []string{"overwrote the input with 0x00", "overwrote the input with 0xFF", "inverted the input"} {
				for j := range buf {
					switch pi {
					case 0:
						buf[j] = 0
					case 1:
						buf[j] = 0xff
					default:
						buf[j] = ^orig[j]
					}
				}
				check(pass)
				// values read *after* the clobber must still be those of the original message
				x.violated = false
				x.result(dr, lvl, def, nil, false, 1)
				if x.violated && cleanBefore {
					report.viol("lazy-alias", "reread-after-clobber", "accessors of a safe-mode lazy result returned different values after the caller "+pass, nil, nil)
					cleanBefore = false
				}
			}
			// truncate and reuse the same backing array for another decode
			other, _ := genMessage(r, genOpts{maxFields: 6, depth: 1, tagPool: defaultTagPool, mark: 'o'})
			if len(other) > cap(buf) {
				other = other[:cap(buf)]
			}
			buf = buf[:len(other)]
			copy(buf, other)
			if dr2, close2, err := decodeVia(ep, buf, def); err == nil {
				_ = monitor.Try(func() { poke(dr2, def, 1) })
				_ = monitor.Try(func() { _ = close2() })
			}
			check("reused the buffer for another decode")
			_ = closeFn()
			check("closed the result")
		}
		if i == 0 && cfg.shard == 0 {
			res.Sample(map[string]any{"family": "lazy safe-mode clobber", "input": monitor.Hex(clip(orig)), "def": defString(def), "passes": "0x00, 0xFF, inverse, reuse, close"})
		}
		if i%256 == 0 {
			res.Eval(x.evals)
			x.evals = 0
			res.MergeClasses(onlyLazy(x.classes))
			x.classes = map[string]int64{}
		}
	}
	res.Eval(x.evals)
	res.MergeClasses(onlyLazy(x.classes))
	_ = lazyproto.ErrTagNotFound
}

func deepCopy(g got) got {
	out := got{}
	if g.strs != nil {
		for _, s := range g.strs {
			out.blobs = append(out.blobs, []byte(s))
		}
		return out
	}
	for _, b := range g.blobs {
		out.blobs = append(out.blobs, append([]byte(nil), b...))
	}
	return out
}

func onlyLazy(m map[string]int64) map[string]int64 {
	out := map[string]int64{}
	for k, v := range m {
		if len(k) > 5 && k[:5] == "lazy/" {
			out[k] = v
		}
	}
	return out
}
