package main

import (
	"bytes"
	"errors"
	"fmt"
	"math"
	"sort"

	"github.com/CrowdStrike/csproto"
	"github.com/CrowdStrike/csproto/lazyproto"

	"verifharness/refwire"
)

// ---------------------------------------------------------------------------------------------------
// The C13 oracle: what every accessor must return for a tag, computed from a reference walk of the
// message bytes. It never calls csproto or lazyproto code.

type outcomeKind int

const (
	okValue           outcomeKind = iota // a value (scalar or list), compared exactly
	okNotFound                           // errors.Is(err, ErrTagNotFound), and not the more specific not-defined error
	okAbsentLenient                      // errors.Is(err, ErrTagNotFound) (empty input: nothing was decoded)
	okNotDefined                         // errors.Is(err, ErrTagNotDefined)
	okNoNesting                          // tag declared without nesting used as a path element: any error of the not-found family
	okMismatch                           // *WireTypeMismatchError
	okOverflow                           // errors.Is(err, csproto.ErrValueOverflow)
	okAnyError                           // some error (malformed packed run)
	okValueOrOverflow                    // statement leaves it open: the value given, or an overflow error
	okUnjudged                           // outside the precondition (e.g. a 10-byte varint with overflow bits inside a packed run)
)

func (k outcomeKind) String() string {
	return [...]string{"value", "notfound", "absent", "notdefined", "nonesting", "mismatch", "overflow", "anyerror", "value|overflow", "unjudged"}[k]
}

type outcome struct {
	kind outcomeKind
	// canonical value: scalars as []uint64{bits} / [][]byte{payload}; lists element-wise
	nums   []uint64
	blobs  [][]byte
	isBlob bool
}

// accessor describes one typed accessor pair member.
type accessor struct {
	name   string
	list   bool
	wt     int // wire type of the kind
	isBlob bool
	// conv converts a raw varint/fixed value; returns (bits, status) with status okValue/okOverflow/okValueOrOverflow
	conv func(v uint64) (uint64, outcomeKind)
	// call invokes the accessor on a FieldData and on a DecodeResult (convenience method)
	onFD  func(fd *lazyproto.FieldData) (got, error)
	onRes func(r *lazyproto.DecodeResult, tag int) (got, error)
}

type got struct {
	nums  []uint64
	blobs [][]byte
	// strs keeps the strings exactly as handed out (the blobs are copies of them)
	strs []string
}

func sblob(v string) got { return got{blobs: [][]byte{[]byte(v)}, strs: []string{v}} }

func ident(v uint64) (uint64, outcomeKind) { return v, okValue }

func one(v uint64) got  { return got{nums: []uint64{v}} }
func blob(b []byte) got { return got{blobs: [][]byte{b}} }
func b2u(b bool) uint64 {
	if b {
		return 1
	}
	return 0
}

func listOf[T any](xs []T, f func(T) uint64) got {
	g := got{nums: make([]uint64, len(xs))}
	for i, x := range xs {
		g.nums[i] = f(x)
	}
	return g
}

var accessors = []accessor{
	{name: "BoolValue", wt: 0, conv: func(v uint64) (uint64, outcomeKind) { return b2u(v != 0), okValue },
		onFD:  func(fd *lazyproto.FieldData) (got, error) { v, e := fd.BoolValue(); return one(b2u(v)), e },
		onRes: func(r *lazyproto.DecodeResult, t int) (got, error) { v, e := r.BoolValue(t); return one(b2u(v)), e }},
	{name: "BoolValues", list: true, wt: 0, conv: func(v uint64) (uint64, outcomeKind) { return b2u(v != 0), okValue },
		onFD:  func(fd *lazyproto.FieldData) (got, error) { v, e := fd.BoolValues(); return listOf(v, b2u), e },
		onRes: func(r *lazyproto.DecodeResult, t int) (got, error) { v, e := r.BoolValues(t); return listOf(v, b2u), e }},
	{name: "UInt32Value", wt: 0, conv: convU32,
		onFD: func(fd *lazyproto.FieldData) (got, error) { v, e := fd.UInt32Value(); return one(uint64(v)), e },
		onRes: func(r *lazyproto.DecodeResult, t int) (got, error) {
			v, e := r.UInt32Value(t)
			return one(uint64(v)), e
		}},
	{name: "UInt32Values", list: true, wt: 0, conv: convU32,
		onFD: func(fd *lazyproto.FieldData) (got, error) {
			v, e := fd.UInt32Values()
			return listOf(v, func(x uint32) uint64 { return uint64(x) }), e
		},
		onRes: func(r *lazyproto.DecodeResult, t int) (got, error) {
			v, e := r.UInt32Values(t)
			return listOf(v, func(x uint32) uint64 { return uint64(x) }), e
		}},
	{name: "Int32Value", wt: 0, conv: convI32,
		onFD: func(fd *lazyproto.FieldData) (got, error) { v, e := fd.Int32Value(); return one(uint64(uint32(v))), e },
		onRes: func(r *lazyproto.DecodeResult, t int) (got, error) {
			v, e := r.Int32Value(t)
			return one(uint64(uint32(v))), e
		}},
	{name: "Int32Values", list: true, wt: 0, conv: convI32,
		onFD: func(fd *lazyproto.FieldData) (got, error) {
			v, e := fd.Int32Values()
			return listOf(v, func(x int32) uint64 { return uint64(uint32(x)) }), e
		},
		onRes: func(r *lazyproto.DecodeResult, t int) (got, error) {
			v, e := r.Int32Values(t)
			return listOf(v, func(x int32) uint64 { return uint64(uint32(x)) }), e
		}},
	{name: "SInt32Value", wt: 0, conv: convS32,
		onFD: func(fd *lazyproto.FieldData) (got, error) { v, e := fd.SInt32Value(); return one(uint64(uint32(v))), e },
		onRes: func(r *lazyproto.DecodeResult, t int) (got, error) {
			v, e := r.SInt32Value(t)
			return one(uint64(uint32(v))), e
		}},
	{name: "SInt32Values", list: true, wt: 0, conv: convS32,
		onFD: func(fd *lazyproto.FieldData) (got, error) {
			v, e := fd.SInt32Values()
			return listOf(v, func(x int32) uint64 { return uint64(uint32(x)) }), e
		},
		onRes: func(r *lazyproto.DecodeResult, t int) (got, error) {
			v, e := r.SInt32Values(t)
			return listOf(v, func(x int32) uint64 { return uint64(uint32(x)) }), e
		}},
	{name: "UInt64Value", wt: 0, conv: ident,
		onFD:  func(fd *lazyproto.FieldData) (got, error) { v, e := fd.UInt64Value(); return one(v), e },
		onRes: func(r *lazyproto.DecodeResult, t int) (got, error) { v, e := r.UInt64Value(t); return one(v), e }},
	{name: "UInt64Values", list: true, wt: 0, conv: ident,
		onFD: func(fd *lazyproto.FieldData) (got, error) {
			v, e := fd.UInt64Values()
			return listOf(v, func(x uint64) uint64 { return x }), e
		},
		onRes: func(r *lazyproto.DecodeResult, t int) (got, error) {
			v, e := r.UInt64Values(t)
			return listOf(v, func(x uint64) uint64 { return x }), e
		}},
	{name: "Int64Value", wt: 0, conv: ident,
		onFD:  func(fd *lazyproto.FieldData) (got, error) { v, e := fd.Int64Value(); return one(uint64(v)), e },
		onRes: func(r *lazyproto.DecodeResult, t int) (got, error) { v, e := r.Int64Value(t); return one(uint64(v)), e }},
	{name: "Int64Values", list: true, wt: 0, conv: ident,
		onFD: func(fd *lazyproto.FieldData) (got, error) {
			v, e := fd.Int64Values()
			return listOf(v, func(x int64) uint64 { return uint64(x) }), e
		},
		onRes: func(r *lazyproto.DecodeResult, t int) (got, error) {
			v, e := r.Int64Values(t)
			return listOf(v, func(x int64) uint64 { return uint64(x) }), e
		}},
	{name: "SInt64Value", wt: 0, conv: func(v uint64) (uint64, outcomeKind) { return uint64(refwire.UnZigZag64(v)), okValue },
		onFD: func(fd *lazyproto.FieldData) (got, error) { v, e := fd.SInt64Value(); return one(uint64(v)), e },
		onRes: func(r *lazyproto.DecodeResult, t int) (got, error) {
			v, e := r.SInt64Value(t)
			return one(uint64(v)), e
		}},
	{name: "SInt64Values", list: true, wt: 0, conv: func(v uint64) (uint64, outcomeKind) { return uint64(refwire.UnZigZag64(v)), okValue },
		onFD: func(fd *lazyproto.FieldData) (got, error) {
			v, e := fd.SInt64Values()
			return listOf(v, func(x int64) uint64 { return uint64(x) }), e
		},
		onRes: func(r *lazyproto.DecodeResult, t int) (got, error) {
			v, e := r.SInt64Values(t)
			return listOf(v, func(x int64) uint64 { return uint64(x) }), e
		}},
	{name: "Fixed32Value", wt: 5, conv: ident,
		onFD: func(fd *lazyproto.FieldData) (got, error) { v, e := fd.Fixed32Value(); return one(uint64(v)), e },
		onRes: func(r *lazyproto.DecodeResult, t int) (got, error) {
			v, e := r.Fixed32Value(t)
			return one(uint64(v)), e
		}},
	{name: "Fixed32Values", list: true, wt: 5, conv: ident,
		onFD: func(fd *lazyproto.FieldData) (got, error) {
			v, e := fd.Fixed32Values()
			return listOf(v, func(x uint32) uint64 { return uint64(x) }), e
		},
		onRes: func(r *lazyproto.DecodeResult, t int) (got, error) {
			v, e := r.Fixed32Values(t)
			return listOf(v, func(x uint32) uint64 { return uint64(x) }), e
		}},
	{name: "Float32Value", wt: 5, conv: ident,
		onFD: func(fd *lazyproto.FieldData) (got, error) {
			v, e := fd.Float32Value()
			return one(uint64(math.Float32bits(v))), e
		},
		onRes: func(r *lazyproto.DecodeResult, t int) (got, error) {
			v, e := r.Float32Value(t)
			return one(uint64(math.Float32bits(v))), e
		}},
	{name: "Float32Values", list: true, wt: 5, conv: ident,
		onFD: func(fd *lazyproto.FieldData) (got, error) {
			v, e := fd.Float32Values()
			return listOf(v, func(x float32) uint64 { return uint64(math.Float32bits(x)) }), e
		},
		onRes: func(r *lazyproto.DecodeResult, t int) (got, error) {
			v, e := r.Float32Values(t)
			return listOf(v, func(x float32) uint64 { return uint64(math.Float32bits(x)) }), e
		}},
	{name: "Fixed64Value", wt: 1, conv: ident,
		onFD:  func(fd *lazyproto.FieldData) (got, error) { v, e := fd.Fixed64Value(); return one(v), e },
		onRes: func(r *lazyproto.DecodeResult, t int) (got, error) { v, e := r.Fixed64Value(t); return one(v), e }},
	{name: "Fixed64Values", list: true, wt: 1, conv: ident,
		onFD: func(fd *lazyproto.FieldData) (got, error) {
			v, e := fd.Fixed64Values()
			return listOf(v, func(x uint64) uint64 { return x }), e
		},
		onRes: func(r *lazyproto.DecodeResult, t int) (got, error) {
			v, e := r.Fixed64Values(t)
			return listOf(v, func(x uint64) uint64 { return x }), e
		}},
	{name: "Float64Value", wt: 1, conv: ident,
		onFD: func(fd *lazyproto.FieldData) (got, error) {
			v, e := fd.Float64Value()
			return one(math.Float64bits(v)), e
		},
		onRes: func(r *lazyproto.DecodeResult, t int) (got, error) {
			v, e := r.Float64Value(t)
			return one(math.Float64bits(v)), e
		}},
	{name: "Float64Values", list: true, wt: 1, conv: ident,
		onFD: func(fd *lazyproto.FieldData) (got, error) {
			v, e := fd.Float64Values()
			return listOf(v, math.Float64bits), e
		},
		onRes: func(r *lazyproto.DecodeResult, t int) (got, error) {
			v, e := r.Float64Values(t)
			return listOf(v, math.Float64bits), e
		}},
	{name: "StringValue", wt: 2, isBlob: true,
		onFD:  func(fd *lazyproto.FieldData) (got, error) { v, e := fd.StringValue(); return sblob(v), e },
		onRes: func(r *lazyproto.DecodeResult, t int) (got, error) { v, e := r.StringValue(t); return sblob(v), e }},
	{name: "StringValues", list: true, wt: 2, isBlob: true,
		onFD:  func(fd *lazyproto.FieldData) (got, error) { v, e := fd.StringValues(); return strs(v), e },
		onRes: func(r *lazyproto.DecodeResult, t int) (got, error) { v, e := r.StringValues(t); return strs(v), e }},
	{name: "BytesValue", wt: 2, isBlob: true,
		onFD:  func(fd *lazyproto.FieldData) (got, error) { v, e := fd.BytesValue(); return blob(v), e },
		onRes: func(r *lazyproto.DecodeResult, t int) (got, error) { v, e := r.BytesValue(t); return blob(v), e }},
	{name: "BytesValues", list: true, wt: 2, isBlob: true,
		onFD:  func(fd *lazyproto.FieldData) (got, error) { v, e := fd.BytesValues(); return got{blobs: v}, e },
		onRes: func(r *lazyproto.DecodeResult, t int) (got, error) { v, e := r.BytesValues(t); return got{blobs: v}, e }},
}

func strs(v []string) got {
	g := got{blobs: make([][]byte, len(v)), strs: v}
	for i, s := range v {
		g.blobs[i] = []byte(s)
	}
	return g
}

func convU32(v uint64) (uint64, outcomeKind) {
	if v > math.MaxUint32 {
		return 0, okOverflow
	}
	return v, okValue
}

func convI32(v uint64) (uint64, outcomeKind) {
	if i := int64(v); i > math.MaxInt32 || i < math.MinInt32 {
		return 0, okOverflow
	}
	return v & math.MaxUint32, okValue
}

func convS32(v uint64) (uint64, outcomeKind) {
	// a sint32 reader takes the low 32 bits; the statement would also be satisfied by an overflow error
	r := uint64(uint32(refwire.UnZigZag32(v)))
	if v > math.MaxUint32 {
		return r, okValueOrOverflow
	}
	return r, okValue
}

// level is the reference view of one message: per field number, its occurrences in wire order.
type level struct {
	raw        []byte
	fields     []refwire.Field
	byNum      map[int][]refwire.Field
	wellFormed bool
	// uniformWT: every number uses one wire type throughout
	mixed map[int]bool
}

func walkLevel(b []byte) *level {
	l := &level{raw: b, byNum: map[int][]refwire.Field{}, mixed: map[int]bool{}}
	fs, err := refwire.Walk(b)
	l.wellFormed = err == nil
	l.fields = fs
	for _, f := range fs {
		if prev := l.byNum[f.Num]; len(prev) > 0 && prev[0].WT != f.WT {
			l.mixed[f.Num] = true
		}
		l.byNum[f.Num] = append(l.byNum[f.Num], f)
	}
	return l
}

func abs(t int) int {
	if t < 0 {
		return -t
	}
	return t
}

// expect computes the outcome of accessor a on tag t of level l under definition def.
func expect(l *level, def lazyproto.Def, a *accessor, t int, emptyInput bool) outcome {
	t = abs(t)
	if !declared(def, t) {
		return outcome{kind: okNotDefined}
	}
	occ := l.byNum[t]
	if len(occ) == 0 {
		if emptyInput {
			return outcome{kind: okAbsentLenient}
		}
		return outcome{kind: okNotFound}
	}
	w := occ[0].WT
	if !a.list {
		if w != a.wt {
			return outcome{kind: okMismatch}
		}
		last := occ[len(occ)-1]
		if a.isBlob {
			return outcome{kind: okValue, isBlob: true, blobs: [][]byte{last.Payload}}
		}
		v, k := a.conv(last.Val)
		return outcome{kind: k, nums: []uint64{v}}
	}
	// list accessors
	if a.isBlob {
		if w != refwire.WTLen {
			return outcome{kind: okMismatch}
		}
		o := outcome{kind: okValue, isBlob: true}
		for _, f := range occ {
			o.blobs = append(o.blobs, f.Payload)
		}
		return o
	}
	switch w {
	case a.wt:
		o := outcome{kind: okValue, nums: []uint64{}}
		for _, f := range occ {
			v, k := a.conv(f.Val)
			if k == okOverflow {
				return outcome{kind: okOverflow}
			}
			if k == okValueOrOverflow {
				o.kind = okValueOrOverflow
			}
			o.nums = append(o.nums, v)
		}
		return o
	case refwire.WTLen:
		o := outcome{kind: okValue, nums: []uint64{}}
		for _, f := range occ {
			var els []uint64
			var err error
			switch a.wt {
			case refwire.WTVarint:
				els, err = refwire.PackedVarints(f.Payload)
			case refwire.WTFixed32:
				els, err = refwire.PackedFixed(f.Payload, 4)
			default:
				els, err = refwire.PackedFixed(f.Payload, 8)
			}
			if errors.Is(err, refwire.ErrOverflow) {
				return outcome{kind: okUnjudged}
			}
			if err != nil {
				return outcome{kind: okAnyError}
			}
			for _, e := range els {
				v, k := a.conv(e)
				if k == okOverflow {
					return outcome{kind: okOverflow}
				}
				if k == okValueOrOverflow {
					o.kind = okValueOrOverflow
				}
				o.nums = append(o.nums, v)
			}
		}
		return o
	}
	return outcome{kind: okMismatch}
}

func declared(def lazyproto.Def, t int) bool {
	if _, ok := def[t]; ok {
		return true
	}
	_, ok := def[-t]
	return ok
}

// nestedDef returns the nested definition for t (declared under t or -t with a non-nil value).
func nestedDef(def lazyproto.Def, t int) lazyproto.Def {
	if d := def[t]; d != nil {
		return d
	}
	return def[-t]
}

// judge compares an accessor result with the outcome; returns "" when satisfied, else the failure kind.
func judge(o outcome, g got, err error) string {
	var mm *lazyproto.WireTypeMismatchError
	switch o.kind {
	case okValue, okValueOrOverflow:
		if err != nil {
			if o.kind == okValueOrOverflow && errors.Is(err, csproto.ErrValueOverflow) {
				return ""
			}
			return "error-instead-of-value"
		}
		if !sameValue(o, g) {
			return "wrong-value"
		}
	case okNotFound:
		if err == nil {
			return "value-for-absent-tag"
		}
		if !errors.Is(err, lazyproto.ErrTagNotFound) || errors.Is(err, lazyproto.ErrTagNotDefined) {
			return "wrong-error-for-absent-tag"
		}
	case okAbsentLenient:
		if err == nil {
			return "value-for-absent-tag"
		}
		if !errors.Is(err, lazyproto.ErrTagNotFound) {
			return "wrong-error-for-absent-tag"
		}
	case okNotDefined:
		if err == nil {
			return "value-for-undeclared-tag"
		}
		if !errors.Is(err, lazyproto.ErrTagNotDefined) {
			return "wrong-error-for-undeclared-tag"
		}
	case okNoNesting:
		if err == nil {
			return "value-for-unnested-path"
		}
		if !errors.Is(err, lazyproto.ErrTagNotFound) {
			return "wrong-error-for-unnested-path"
		}
	case okMismatch:
		if err == nil {
			return "value-despite-wire-type-mismatch"
		}
		if !errors.As(err, &mm) {
			return "wrong-error-for-wire-type-mismatch"
		}
	case okOverflow:
		if err == nil {
			return "value-despite-overflow"
		}
		if !errors.Is(err, csproto.ErrValueOverflow) {
			return "wrong-error-for-overflow"
		}
	case okAnyError:
		if err == nil {
			return "value-for-malformed-packed-run"
		}
	}
	return ""
}

func sameValue(o outcome, g got) bool {
	if o.isBlob {
		if len(o.blobs) != len(g.blobs) {
			return false
		}
		for i := range o.blobs {
			if !bytes.Equal(o.blobs[i], g.blobs[i]) {
				return false
			}
		}
		return true
	}
	if len(o.nums) != len(g.nums) {
		return false
	}
	for i := range o.nums {
		if o.nums[i] != g.nums[i] {
			return false
		}
	}
	return true
}

func describe(o outcome) string {
	switch o.kind {
	case okValue, okValueOrOverflow:
		if o.isBlob {
			s := fmt.Sprintf("%s %d blob(s)", o.kind, len(o.blobs))
			for i, b := range o.blobs {
				if i >= 4 {
					break
				}
				s += fmt.Sprintf(" %x", clip(b))
			}
			return s
		}
		n := o.nums
		if len(n) > 8 {
			n = n[:8]
		}
		return fmt.Sprintf("%s %x (%d element(s))", o.kind, n, len(o.nums))
	}
	return o.kind.String()
}

func describeGot(g got, err error) string {
	if err != nil {
		return "error: " + err.Error()
	}
	if g.blobs != nil {
		s := fmt.Sprintf("%d blob(s)", len(g.blobs))
		for i, b := range g.blobs {
			if i >= 4 {
				break
			}
			s += fmt.Sprintf(" %x", clip(b))
		}
		return s
	}
	n := g.nums
	if len(n) > 8 {
		n = n[:8]
	}
	return fmt.Sprintf("%x (%d element(s))", n, len(g.nums))
}

func clip(b []byte) []byte {
	if len(b) > 48 {
		return b[:48]
	}
	return b
}

func sortedTags(def lazyproto.Def) []int {
	seen := map[int]bool{}
	var ts []int
	for k := range def {
		if !seen[abs(k)] {
			seen[abs(k)] = true
			ts = append(ts, abs(k))
		}
	}
	sort.Ints(ts)
	return ts
}
