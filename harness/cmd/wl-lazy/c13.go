package main

import (
	"fmt"

	"github.com/CrowdStrike/csproto"
	"github.com/CrowdStrike/csproto/lazyproto"

	"verifharness/monitor"
)

type entryPoint struct {
	name string
	fast bool
	obj  bool
}

var entryPoints = []entryPoint{
	{"func", false, false},
	{"decoder", false, true},
	{"decoder", true, true},
}

func modeStr(fast bool) string {
	if fast {
		return "fast"
	}
	return "safe"
}

// decodeVia decodes input through one entry point. closeFn releases the result.
func decodeVia(ep entryPoint, input []byte, def lazyproto.Def, opts ...lazyproto.Option) (r *lazyproto.DecodeResult, closeFn func() error, err error) {
	if !ep.obj {
		res, err := lazyproto.Decode(input, def)
		if err != nil {
			return nil, func() error { return nil }, err
		}
		return &res, res.Close, nil
	}
	mode := csproto.DecoderModeSafe
	if ep.fast {
		mode = csproto.DecoderModeFast
	}
	dec, err := lazyproto.NewDecoder(def, append([]lazyproto.Option{lazyproto.WithMode(mode)}, opts...)...)
	if err != nil {
		return nil, func() error { return nil }, fmt.Errorf("NewDecoder: %w", err)
	}
	res, err := dec.Decode(input)
	if err != nil {
		return nil, func() error { return nil }, err
	}
	return res, res.Close, nil
}

func runC13(cfg *config, res *monitor.Result) {
	n := 30000
	if cfg.thorough() {
		n = 300000
	}
	x := &exerciser{res: res, prop: "C13", classes: map[string]int64{}}
	r := monitor.NewRand(cfg.seed, "c13", cfg.shard)
	for i := 0; i < n/cfg.nshard; i++ {
		var input []byte
		if i%50 != 7 { // every 50th case is the empty message
			input, _ = genMessage(r, genOpts{maxFields: 12, depth: 3, tagPool: defaultTagPool, mark: 'm'})
		}
		lvl := walkLevel(input)
		if !lvl.wellFormed || len(lvl.mixed) > 0 {
			res.Inconc("generator produced a message outside the precondition")
			continue
		}
		def := genDef(r, lvl, defaultTagPool, 3)
		for _, ep := range entryPoints {
			cfg.progress.Set("c13", ep.name, modeStr(ep.fast), defString(def), monitor.Hex(input))
			x.input, x.def, x.mode, x.entry = input, def, modeStr(ep.fast), ep.name
			in := append([]byte(nil), input...) // each entry point gets its own copy
			var dr *lazyproto.DecodeResult
			var closeFn func() error
			var err error
			if pi := monitor.Try(func() { dr, closeFn, err = decodeVia(ep, in, def) }); pi != nil {
				x.viol("Decode", "panic", "Decode panicked on a well-formed message: "+pi.Value, nil, map[string]any{"frame": pi.Frame})
				continue
			}
			x.evals++
			if err != nil {
				x.viol("Decode", "well-formed-rejected", "Decode failed on a well-formed message: "+err.Error(), nil, nil)
				continue
			}
			x.result(dr, lvl, def, nil, len(input) == 0, 3)
			if pi := monitor.Try(func() { err = closeFn() }); pi != nil {
				x.viol("Close", "panic", "Close panicked: "+pi.Value, nil, map[string]any{"frame": pi.Frame})
			} else if err != nil {
				x.viol("Close", "error", "Close returned an error: "+err.Error(), nil, nil)
			}
		}
		if i < 2 && cfg.shard == 0 {
			res.Sample(map[string]any{"family": "well-formed message x definition", "input": monitor.Hex(clip(input)), "input_len": len(input), "def": defString(def), "entry_points": "Decode func, Decoder safe, Decoder fast", "accessors": len(accessors)})
		}
		// arbitrary bytes: only "no panic"
		if len(input) > 0 {
			for k := 0; k < 3; k++ {
				mut := append([]byte(nil), input...)
				switch r.Intn(4) {
				case 0:
					mut = mut[:r.Intn(len(mut))]
				case 1:
					mut[r.Intn(len(mut))] = byte(r.Uint64())
				case 2:
					mut[r.Intn(len(mut))] ^= 0x80
				default:
					mut = r.Bytes(1 + r.Intn(24))
				}
				for _, ep := range entryPoints {
					cfg.progress.Set("c13-mut", ep.name, modeStr(ep.fast), defString(def), monitor.Hex(mut))
					x.input, x.def, x.mode, x.entry = mut, def, modeStr(ep.fast), ep.name
					x.evals++
					if pi := monitor.Try(func() {
						dr, closeFn, err := decodeVia(ep, append([]byte(nil), mut...), def)
						if err == nil {
							poke(dr, def, 2)
						}
						_ = closeFn()
					}); pi != nil {
						x.viol("Arbitrary", "panic:"+pi.Frame, "a call panicked on an arbitrary byte string: "+pi.Value, nil, map[string]any{"frame": pi.Frame, "stack": pi.Stack})
					}
				}
				x.classes["arbitrary-bytes/no-panic"]++
			}
		}
		if i%256 == 0 {
			x.flush()
		}
	}
	x.flush()
}

// poke calls every accessor without judging the results (arbitrary input: only panics matter).
func poke(r *lazyproto.DecodeResult, def lazyproto.Def, depth int) {
	for _, t := range sortedTags(def) {
		fd, _ := r.FieldData(t)
		_, _ = r.FieldData(-t)
		for ai := range accessors {
			_, _ = accessors[ai].onRes(r, t)
			if fd != nil {
				_, _ = accessors[ai].onFD(fd)
			}
		}
		if depth > 0 {
			if nr, err := r.NestedResult(t); err == nil && nr != nil {
				if sub := nestedDef(def, t); sub != nil {
					poke(nr, sub, depth-1)
				}
			}
			if nrs, err := r.NestedResults(t); err == nil {
				for _, nr := range nrs {
					if sub := nestedDef(def, t); sub != nil && nr != nil {
						poke(nr, sub, 0)
					}
				}
			}
			_, _ = r.FieldData(t, 1)
		}
	}
	r.Range(func(int, *lazyproto.FieldData) bool { return true })
}
