package main

import (
	"fmt"

	"github.com/CrowdStrike/csproto"
	"github.com/CrowdStrike/csproto/lazyproto"

	"verifharness/monitor"
)

type entryPoint struct {
	name string
	fast bool
	obj  bool
}

var entryPoints = []entryPoint{
	{"func", false, false},
	{"decoder", false, true},
	{"decoder", true, true},
}

func modeStr(fast bool) string {
	if fast {
		return "fast"
	}
	return "safe"
}

// decodeVia decodes input through one entry point. closeFn releases the result.
func decodeVia(ep entryPoint, input []byte, def lazyproto.Def, opts ...lazyproto.Option) (r *lazyproto.DecodeResult, closeFn func() error, err error) {
	if !ep.obj {
		res, err := lazyproto.Decode(input, def)
		if err != nil {
			return nil, func() error { return nil }, err
		}
		return &res, res.Close, nil
	}
	mode := csproto.DecoderModeSafe
	if ep.fast {
		mode = csproto.DecoderModeFast
	}
	dec, err := lazyproto.NewDecoder(def, append([]lazyproto.Option{lazyproto.WithMode(mode)}, opts...)...)
	if err != nil {
		return nil, func() error { return nil }, fmt.Errorf("NewDecoder: %w", err)
	}
	res, err := dec.Decode(input)
	if err != nil {
		return nil, func() error { return nil }, err
	}
	return res, res.Close, nil
}

func runC13(cfg *config, res *monitor.Result) {
	n := 30000
	if cfg.thorough() {
		n = 300000
	}
	x := &exerciser{res: res, prop: "C13", classes: map[string]int64{}}
	r := monitor.NewRand(cfg.seed, "c13", cfg.shard)
	for i := 0; i < n/cfg.nshard; i++ {
		var input []byte
		if i%50 != 7 { // every 50th case is the empty message
			input, _ = genMessage(r, genOpts{maxFields: 12, depth: 3, tagPool: defaultTagPool, mark: 'm'})
		}
		lvl := walkLevel(input)
		if !lvl.wellFormed || len(lvl.mixed) > 0 {
			res.Inconc("generator produced a message outside the precondition")
			continue
		}
		def := genDef(r, lvl, defaultTagPool, 3)
		for _, ep := range entryPoints {
			cfg.progress.Set("c13", ep.name, modeStr(ep.fast), defString(def), monitor.Hex(input))
			x.input, x.def, x.mode, x.entry = input, def, modeStr(ep.fast), ep.name
			in := append([]byte(nil), input...) // each entry point gets its own copy
			var dr *lazyproto.DecodeResult
			var closeFn func() error
			var err error
			if pi := monitor.Try(func() { dr, closeFn, err = decodeVia(ep, in, def) }); pi != nil {
				x.viol("Decode", "panic", "Decode panicked on a well-formed message: "+pi.Value, nil, map[string]any{"frame": pi.Frame})
				continue
			}
			x.evals++
			if err != nil {
				x.viol("Decode", "well-formed-rejected", "Decode failed on a well-formed message: "+err.Error(), nil, nil)
				continue
			}
			x.result(dr, lvl, def, nil, len(input) == 0, 3)
			if pi := monitor.Try(func() { err = closeFn() }); pi != nil {
				x.viol("Close", "panic", "Close panicked: "+pi.Value, nil, map[string]any{"frame": pi.Frame})
			} else if err != nil {
				x.viol("Close", "error", "Close returned an error: "+err.Error(), nil, nil)
			}
		}
		// the SAME Def object changed in place between two calls of the Decode function (a tag swapped for another
		// one, a nested definition extended): the second call must answer for the definition as it is now
		if i%4 == 1 && len(def) > 0 {
			tags := sortedTags(def)
			victim := tags[r.Intn(len(tags))]
			repl := 0
			for _, f := range lvl.fields {
				if !declared(def, f.Num) && !lvl.mixed[f.Num] {
					repl = f.Num
					break
				}
			}
			if repl == 0 {
				for _, c := range []int{6, 8, 12, 14, 17} {
					if !declared(def, c) && len(lvl.byNum[c]) == 0 {
						repl = c
						break
					}
				}
			}
			changed := false
			if sub := nestedDef(def, victim); sub != nil && r.Bool() {
				for _, c := range []int{1, 2, 3, 4, 5, 15, 16} {
					if _, ok := sub[c]; !ok {
						sub.Tags(c) // same top-level length, nested definition grows
						changed = true
						break
					}
				}
			}
			if !changed && repl != 0 {
				delete(def, victim)
				delete(def, -victim)
				def.Tags(repl)
				changed = true
			}
			if changed {
				in := append([]byte(nil), input...)
				cfg.progress.Set("c13-def-mutated", defString(def), monitor.Hex(input))
				x.input, x.def, x.mode, x.entry = input, def, "safe", "func-after-def-mutation"
				var dr *lazyproto.DecodeResult
				var closeFn func() error
				var err error
				if pi := monitor.Try(func() { dr, closeFn, err = decodeVia(entryPoints[0], in, def) }); pi != nil {
					x.viol("Decode", "panic", "Decode panicked on a well-formed message: "+pi.Value, nil, map[string]any{"frame": pi.Frame})
				} else if err != nil {
					x.viol("Decode", "well-formed-rejected", "Decode failed on a well-formed message: "+err.Error(), nil, nil)
				} else {
					x.evals++
					x.result(dr, lvl, def, nil, len(input) == 0, 3)
					_ = closeFn()
					x.classes["def-mutated-in-place/func"]++
				}
			}
		}
		if i < 2 && cfg.shard == 0 {
			res.Sample(map[string]any{"family": "well-formed message x definition", "input": monitor.Hex(clip(input)), "input_len": len(input), "def": defString(def), "entry_points": "Decode func, Decoder safe, Decoder fast", "accessors": len(accessors)})
		}
		// several results of one Decoder alive at the same time (interleaved use on one goroutine): each must
		// keep returning its own message's values while siblings are read, closed and recycled
		if i%3 == 0 && len(input) > 0 {
			other, _ := genMessage(r, genOpts{maxFields: 6, depth: 2, tagPool: defaultTagPool, mark: 'o'})
			b := append(append([]byte(nil), other...), input...)
			if lb := walkLevel(b); !lb.wellFormed || len(lb.mixed) > 0 {
				b = append([]byte(nil), input...)
			}
			ins := [][]byte{append([]byte(nil), input...), b, append([]byte(nil), input...), append([]byte(nil), b...)}
			for _, fast := range []bool{false, true} {
				mode := csproto.DecoderModeSafe
				if fast {
					mode = csproto.DecoderModeFast
				}
				opts := []lazyproto.Option{lazyproto.WithMode(mode)}
				maxBuf := []int{-1, 0, 1, 2}[(i/3)%4]
				if maxBuf >= 0 {
					opts = append(opts, lazyproto.WithMaxBufferSize(maxBuf))
				}
				dec, err := lazyproto.NewDecoder(def, opts...)
				if err != nil {
					break
				}
				x.def, x.mode, x.entry = def, modeStr(fast), "decoder-overlap"
				cfg.progress.Set("c13-overlap", modeStr(fast), defString(def), monitor.Hex(input), monitor.Hex(b))
				var rs []*lazyproto.DecodeResult
				var lvls []*level
				held := make([][]heldNested, 4)
				check := func(k int) {
					x.input = ins[k]
					first := held[k] == nil
					if first {
						held[k] = []heldNested{}
						x.hold = &held[k]
					}
					x.result(rs[k], lvls[k], def, nil, false, 3)
					x.hold = nil
					if !first { // nested results handed out earlier by this (still open) result must be unchanged
						for _, h := range held[k] {
							x.result(h.nr, h.l, h.def, h.path, h.empty, 0)
							x.classes["held-nested-result-reread/"+x.mode]++
						}
					}
				}
				if pi := monitor.Try(func() {
					for k := 0; k < 3; k++ {
						dr, err := dec.Decode(ins[k])
						x.evals++
						if err != nil {
							x.input = ins[k]
							x.viol("Decode", "well-formed-rejected", "Decode failed on a well-formed message: "+err.Error(), nil, nil)
							return
						}
						rs = append(rs, dr)
						lvls = append(lvls, walkLevel(ins[k]))
					}
					for k := range rs {
						check(k)
					}
					_ = rs[0].Close()
					check(1)
					check(2)
					dr, err := dec.Decode(ins[3]) // likely served from recycled objects
					if err != nil {
						return
					}
					rs = append(rs, dr)
					lvls = append(lvls, walkLevel(ins[3]))
					check(3)
					check(1)
					_ = rs[2].Close()
					check(3)
					check(1)
					_ = rs[1].Close()
					check(3)
					_ = rs[3].Close()
					// everything is back in the pools: decoding the first input again must give its values only
					dr, err = dec.Decode(ins[0])
					if err != nil {
						return
					}
					rs[0], held[0] = dr, nil
					check(0)
					_ = dr.Close()
				}); pi != nil {
					x.viol("Overlap", "panic", "interleaved use of several results of one Decoder panicked: "+pi.Value, nil, map[string]any{"frame": pi.Frame})
				}
				x.classes[fmt.Sprintf("overlapping-results/%s/max%d", modeStr(fast), maxBuf)]++
			}
		}
		// arbitrary bytes: only "no panic"
		if len(input) > 0 {
			for k := 0; k < 3; k++ {
				mut := append([]byte(nil), input...)
				switch r.Intn(4) {
				case 0:
					mut = mut[:r.Intn(len(mut))]
				case 1:
					mut[r.Intn(len(mut))] = byte(r.Uint64())
				case 2:
					mut[r.Intn(len(mut))] ^= 0x80
				default:
					mut = r.Bytes(1 + r.Intn(24))
				}
				for _, ep := range entryPoints {
					cfg.progress.Set("c13-mut", ep.name, modeStr(ep.fast), defString(def), monitor.Hex(mut))
					x.input, x.def, x.mode, x.entry = mut, def, modeStr(ep.fast), ep.name
					x.evals++
					if pi := monitor.Try(func() {
						dr, closeFn, err := decodeVia(ep, append([]byte(nil), mut...), def)
						if err == nil {
							poke(dr, def, 2)
						}
						_ = closeFn()
					}); pi != nil {
						x.viol("Arbitrary", "panic:"+pi.Frame, "a call panicked on an arbitrary byte string: "+pi.Value, nil, map[string]any{"frame": pi.Frame, "stack": pi.Stack})
					}
				}
				x.classes["arbitrary-bytes/no-panic"]++
			}
		}
		if i%256 == 0 {
			x.flush()
		}
	}
	x.flush()
}

// poke calls every accessor without judging the results (arbitrary input: only panics matter).
func poke(r *lazyproto.DecodeResult, def lazyproto.Def, depth int) {
	for _, t := range sortedTags(def) {
		fd, _ := r.FieldData(t)
		_, _ = r.FieldData(-t)
		for ai := range accessors {
			_, _ = accessors[ai].onRes(r, t)
			if fd != nil {
				_, _ = accessors[ai].onFD(fd)
			}
		}
		if depth > 0 {
			if nr, err := r.NestedResult(t); err == nil && nr != nil {
				if sub := nestedDef(def, t); sub != nil {
					poke(nr, sub, depth-1)
				}
			}
			if nrs, err := r.NestedResults(t); err == nil {
				for _, nr := range nrs {
					if sub := nestedDef(def, t); sub != nil && nr != nil {
						poke(nr, sub, 0)
					}
				}
			}
			_, _ = r.FieldData(t, 1)
		}
	}
	r.Range(func(int, *lazyproto.FieldData) bool { return true })
}
