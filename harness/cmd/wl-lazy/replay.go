package main

import (
	"encoding/hex"
	"encoding/json"
	"fmt"
	"os"
	"strconv"
	"strings"

	"github.com/CrowdStrike/csproto/lazyproto"

	"verifharness/monitor"
)

// parseDef parses the rendering produced by defString.
func parseDef(s string) (lazyproto.Def, string) {
	if strings.HasPrefix(s, "nil") {
		return nil, s[3:]
	}
	d := lazyproto.Def{}
	s = s[1:] // {
	for len(s) > 0 && s[0] != '}' {
		i := 0
		for i < len(s) && (s[i] == '-' || (s[i] >= '0' && s[i] <= '9')) {
			i++
		}
		k, _ := strconv.Atoi(s[:i])
		s = s[i:]
		if len(s) > 0 && s[0] == ':' {
			var sub lazyproto.Def
			sub, s = parseDef(s[1:])
			d[k] = sub
		} else {
			d[k] = nil
		}
		if len(s) > 0 && s[0] == ',' {
			s = s[1:]
		}
	}
	if len(s) > 0 {
		s = s[1:]
	}
	return d, s
}

func runReplay(cfg *config, res *monitor.Result) {
	raw, err := os.ReadFile(cfg.replay)
	if err != nil {
		fmt.Fprintln(os.Stderr, err)
		os.Exit(3)
	}
	var rp struct {
		Property string         `json:"property"`
		Sig      string         `json:"sig"`
		What     string         `json:"what"`
		Witness  map[string]any `json:"witness"`
	}
	if err := json.Unmarshal(raw, &rp); err != nil {
		fmt.Fprintln(os.Stderr, err)
		os.Exit(3)
	}
	res.Property = rp.Property
	fmt.Printf("replaying %s\n  recorded: %s\n", rp.Sig, rp.What)
	str := func(k string) string { s, _ := rp.Witness[k].(string); return s }
	if _, isSeq := rp.Witness["trace"]; isSeq || rp.Property == "C14" || rp.Property == "C15" {
		// histories depend on pool state and schedule: re-run the seeded workload of the recorded tier
		fmt.Println("  history witness: re-running the seeded workload that produced it")
		cfg.prop = rp.Property
		switch rp.Property {
		case "C14":
			runC14(cfg, res)
		case "C15":
			runC15(cfg, res)
		case "C10":
			runC10(cfg, res)
		}
	} else {
		input, _ := hex.DecodeString(strings.TrimSuffix(str("input"), "..."))
		def, _ := parseDef(str("def"))
		lvl := walkLevel(input)
		x := &exerciser{res: res, prop: rp.Property, classes: map[string]int64{}, input: input, def: def}
		for _, ep := range entryPoints {
			if ep.name != strings.TrimPrefix(str("entry"), "lazy-") || modeStr(ep.fast) != str("mode") {
				continue
			}
			x.mode, x.entry = str("mode"), ep.name
			var dr *lazyproto.DecodeResult
			var closeFn func() error
			var err error
			if pi := monitor.Try(func() { dr, closeFn, err = decodeVia(ep, append([]byte(nil), input...), def) }); pi != nil {
				x.viol("Decode", "panic", "Decode panicked: "+pi.Value, nil, nil)
				continue
			}
			if err != nil {
				fmt.Println("  Decode error:", err)
				if lvl.wellFormed {
					x.viol("Decode", "well-formed-rejected", err.Error(), nil, nil)
				}
				continue
			}
			if lvl.wellFormed && len(lvl.mixed) == 0 {
				x.result(dr, lvl, def, nil, len(input) == 0, 3)
			} else if pi := monitor.Try(func() { poke(dr, def, 2) }); pi != nil {
				x.viol("Arbitrary", "panic:"+pi.Frame, pi.Value, nil, nil)
			}
			if pi := monitor.Try(func() { _ = closeFn() }); pi != nil {
				x.viol("Close", "panic", pi.Value, nil, nil)
			}
		}
		x.flush()
	}
	for _, v := range res.Violations {
		fmt.Printf("  monitor: VIOLATED %s\n    %s\n", v.Sig, v.What)
	}
	if len(res.Violations) == 0 {
		fmt.Println("  monitor: no violation observed on replay")
	}
}
