package main

import (
	"math"

	"github.com/CrowdStrike/csproto/lazyproto"

	"verifharness/monitor"
	"verifharness/refwire"
)

// genOpts steers the schema-free message generator.
type genOpts struct {
	maxFields int
	depth     int
	// tagPool: field numbers are drawn from here so definitions hit them often
	tagPool []int
	// tagUnique: payload bytes marking this input (C14/C15: foreign values must be recognisable)
	mark byte
}

var defaultTagPool = []int{1, 2, 3, 4, 5, 15, 16, 100, 2047, 2048, 18999, 20000, 1 << 21, 1<<26 + 3, 1<<29 - 1}

func randVarint(r *monitor.Rand) uint64 {
	switch r.Intn(8) {
	case 0:
		return 0
	case 1:
		return 1
	case 2:
		return uint64(r.Intn(300))
	case 3: // negative int32 sign-extended
		return uint64(int64(-int32(r.Intn(1 << 20))))
	case 4: // around 2^32
		return uint64(math.MaxUint32) + uint64(r.Intn(5)) - 2
	case 5: // around 2^31
		return uint64(math.MaxInt32) + uint64(r.Intn(5)) - 2
	case 6:
		l := r.Intn(65)
		v := r.Uint64()
		if l < 64 {
			v &= (1 << uint(l)) - 1
		}
		return v
	}
	return r.Uint64()
}

// genMessage builds one well-formed message in which every field number uses a single wire type.
// It returns the bytes; nestedTags records which numbers hold nested messages at this level.
func genMessage(r *monitor.Rand, o genOpts) (b []byte, nested map[int]bool) {
	nested = map[int]bool{}
	wtOf := map[int]int{}
	kindOf := map[int]int{} // for LD: 0 string, 1 nested message, 2 packed varint, 3 packed fixed32, 4 packed fixed64, 5 empty
	n := 1 + r.Intn(o.maxFields)
	for i := 0; i < n; i++ {
		var num int
		if r.Chance(5, 6) {
			num = o.tagPool[r.Intn(len(o.tagPool))]
		} else {
			num = 1 + r.Intn(refwire.MaxFieldNumber)
			if num >= 19000 && num <= 19999 { // reserved range: a conforming writer never emits it
				num += 1000
			}
		}
		wt, ok := wtOf[num]
		if !ok {
			wt = []int{0, 0, 1, 2, 2, 2, 5}[r.Intn(7)]
			wtOf[num] = wt
			if wt == 2 {
				k := r.Intn(6)
				if k == 1 && o.depth == 0 {
					k = 0
				}
				kindOf[num] = k
			}
		}
		reps := 1
		if r.Chance(1, 3) {
			reps = 1 + r.Intn(4)
		}
		if r.Chance(1, 40) {
			reps = 40
		}
		for j := 0; j < reps; j++ {
			b = refwire.AppendKey(b, num, wt)
			switch wt {
			case 0:
				b = refwire.AppendVarint(b, randVarint(r))
			case 1:
				b = refwire.AppendFixed64(b, r.Uint64())
			case 5:
				b = refwire.AppendFixed32(b, uint32(r.Uint64()))
			default:
				var p []byte
				switch kindOf[num] {
				case 0: // string-ish payload, sometimes empty
					if !r.Chance(1, 5) {
						p = r.Bytes(1 + r.Intn(20))
						p[0] = o.mark
					}
				case 1:
					nested[num] = true
					if !r.Chance(1, 8) { // sometimes an empty nested message
						so := o
						so.depth--
						so.maxFields = 6
						p, _ = genMessage(r, so)
					}
				case 2:
					for k := r.Intn(6); k > 0; k-- {
						p = refwire.AppendVarint(p, randVarint(r))
					}
				case 3:
					for k := r.Intn(6); k > 0; k-- {
						p = refwire.AppendFixed32(p, uint32(r.Uint64()))
					}
				case 4:
					for k := r.Intn(6); k > 0; k-- {
						p = refwire.AppendFixed64(p, r.Uint64())
					}
				}
				b = refwire.AppendLen(b, p)
			}
		}
	}
	return b, nested
}

// genDef builds a definition over present and absent tags; nested definitions are added for tags
// that hold nested messages (and occasionally for other length-delimited tags).
func genDef(r *monitor.Rand, l *level, pool []int, depth int) lazyproto.Def {
	def := lazyproto.Def{}
	var present []int
	for num := range l.byNum {
		present = append(present, num)
	}
	sortInts(present)
	n := 1 + r.Intn(6)
	for i := 0; i < n; i++ {
		var t int
		if len(present) > 0 && r.Chance(3, 4) {
			t = present[r.Intn(len(present))]
		} else {
			t = pool[r.Intn(len(pool))]
		}
		occ := l.byNum[t]
		if depth > 0 && len(occ) > 0 && occ[0].WT == refwire.WTLen && r.Chance(2, 3) {
			// nested definition built from the last payload
			sub := walkLevel(occ[len(occ)-1].Payload)
			if !sub.wellFormed || len(sub.mixed) > 0 {
				// payload is not a message: still declare nesting sometimes (decode of it may fail lazily)
				if r.Chance(1, 3) {
					def[t] = lazyproto.NewDef(1, 2)
				} else {
					def[t] = nil
				}
			} else {
				def[t] = genDef(r, sub, pool, depth-1)
			}
			if r.Chance(1, 3) {
				def[-t] = nil // raw access twin
			}
			continue
		}
		if r.Chance(1, 8) {
			def[-t] = nil
		} else {
			def[t] = nil
		}
	}
	return def
}

func sortInts(a []int) {
	for i := 1; i < len(a); i++ {
		for j := i; j > 0 && a[j] < a[j-1]; j-- {
			a[j], a[j-1] = a[j-1], a[j]
		}
	}
}
