package main

import (
	"errors"
	"fmt"
	"sort"
	"strings"

	"github.com/CrowdStrike/csproto/lazyproto"

	"verifharness/monitor"
	"verifharness/refwire"
)

// exerciser calls every accessor of a decode result and judges each against the reference.
// heldNested is a nested result kept by the caller together with what it must contain.
type heldNested struct {
	nr    *lazyproto.DecodeResult
	l     *level
	def   lazyproto.Def
	path  []int
	empty bool
}

type exerciser struct {
	res     *monitor.Result
	prop    string
	classes map[string]int64
	evals   int64
	// context of the current case for witnesses
	input []byte
	def   lazyproto.Def
	mode  string
	entry string
	extra map[string]any
	// handed collects values handed out (safe mode) for later stability checks (C10/C14)
	keep   bool
	handed []handedValue
	// nestedSeen collects nested results obtained (C14/C15 accounting)
	nestedSeen []*lazyproto.DecodeResult
	violated   bool
	// hold, when set, collects the top-level nested results handed out by NestedResult so that a caller can
	// read them again later (they stay valid until their parent is closed)
	hold *[]heldNested
}

type handedValue struct {
	what string
	live got // the slices / strings exactly as handed out
	snap got // deep copy taken at hand-out
}

// intact reports whether a handed-out value still equals its snapshot.
func (h *handedValue) intact() bool {
	if h.live.strs != nil {
		if len(h.live.strs) != len(h.snap.blobs) {
			return false
		}
		for i, s := range h.live.strs {
			if s != string(h.snap.blobs[i]) {
				return false
			}
		}
		return true
	}
	if len(h.live.blobs) != len(h.snap.blobs) {
		return false
	}
	for i := range h.live.blobs {
		if string(h.live.blobs[i]) != string(h.snap.blobs[i]) {
			return false
		}
	}
	return true
}

func defString(d lazyproto.Def) string {
	if d == nil {
		return "nil"
	}
	var ks []int
	for k := range d {
		ks = append(ks, k)
	}
	sort.Ints(ks)
	var sb strings.Builder
	sb.WriteString("{")
	for i, k := range ks {
		if i > 0 {
			sb.WriteString(",")
		}
		fmt.Fprintf(&sb, "%d", k)
		if d[k] != nil {
			sb.WriteString(":" + defString(d[k]))
		}
	}
	sb.WriteString("}")
	return sb.String()
}

func (x *exerciser) viol(what, failure, detail string, path []int, more map[string]any) {
	x.violated = true
	sig := fmt.Sprintf("%s:%s:%s", x.prop, what, failure)
	w := map[string]any{"input": monitor.Hex(x.input), "def": defString(x.def), "mode": x.mode, "entry": x.entry, "path": fmt.Sprint(path)}
	for k, v := range x.extra {
		w[k] = v
	}
	for k, v := range more {
		w[k] = v
	}
	x.res.Violate(sig, detail, w)
}

func wtName(wt int) string { return "wt" + fmt.Sprint(wt) }

// result exercises one (possibly nested) decode result against the reference level.
func (x *exerciser) result(r *lazyproto.DecodeResult, l *level, def lazyproto.Def, path []int, empty bool, depth int) {
	tags := sortedTags(def)
	// candidate tags: all declared ones plus one undeclared-present and one undeclared-absent
	cands := append([]int(nil), tags...)
	for _, f := range l.fields {
		if !declared(def, f.Num) {
			cands = append(cands, f.Num)
			break
		}
	}
	for _, t := range []int{7, 11, 13, 536870000} {
		if !declared(def, t) && len(l.byNum[t]) == 0 {
			cands = append(cands, t)
			break
		}
	}
	for ci, t := range cands {
		occ := l.byNum[t]
		wtc := "absent"
		if len(occ) > 0 {
			wtc = wtName(occ[0].WT)
		}
		if l.mixed[t] {
			continue // outside the property's precondition
		}
		useNeg := (ci+len(path))%3 == 1 // address every third tag through its negative twin
		qt := t
		if useNeg {
			qt = -t
		}
		var fd *lazyproto.FieldData
		var fdErr error
		if pi := monitor.Try(func() { fd, fdErr = r.FieldData(qt) }); pi != nil {
			x.viol("FieldData", "panic", "FieldData panicked: "+pi.Value, append(path, qt), map[string]any{"frame": pi.Frame})
			continue
		}
		x.evals++
		switch {
		case !declared(def, t):
			if fdErr == nil || !errors.Is(fdErr, lazyproto.ErrTagNotDefined) {
				x.viol("FieldData", "undeclared-tag", fmt.Sprintf("FieldData(%d) on an undeclared tag returned err=%v", qt, fdErr), append(path, qt), nil)
			}
		case len(occ) == 0:
			if fdErr == nil || !errors.Is(fdErr, lazyproto.ErrTagNotFound) || (!empty && errors.Is(fdErr, lazyproto.ErrTagNotDefined)) {
				x.viol("FieldData", "absent-tag", fmt.Sprintf("FieldData(%d) on a declared but absent tag returned err=%v", qt, fdErr), append(path, qt), nil)
			}
		default:
			if fdErr != nil || fd == nil {
				x.viol("FieldData", "present-tag", fmt.Sprintf("FieldData(%d) on a present, declared tag returned err=%v", qt, fdErr), append(path, qt), nil)
			}
		}
		for ai := range accessors {
			a := &accessors[ai]
			o := expect(l, def, a, t, empty)
			for via := 0; via < 2; via++ {
				if via == 1 && fd == nil {
					continue
				}
				var g got
				var err error
				pi := monitor.Try(func() {
					if via == 0 {
						g, err = a.onRes(r, qt)
					} else {
						g, err = a.onFD(fd)
					}
				})
				x.evals++
				if pi != nil {
					x.viol(a.name, "panic:"+wtc, fmt.Sprintf("%s(%d) panicked: %s", a.name, qt, pi.Value), append(path, qt), map[string]any{"frame": pi.Frame})
					continue
				}
				if f := judge(o, g, err); f != "" {
					x.viol(a.name, f+":"+wtc, fmt.Sprintf("%s on tag %d (%s, %d occurrence(s)): expected %s, got %s", a.name, qt, wtc, len(occ), describe(o), describeGot(g, err)),
						append(path, qt), map[string]any{"accessor": a.name, "expected": describe(o), "got": describeGot(g, err)})
				} else if x.keep && err == nil && via == 0 && a.isBlob {
					x.remember(fmt.Sprintf("%s%v", a.name, append(path, qt)), g)
				}
				if len(l.fields) >= 2 && len(occ) > 0 {
					x.classes[fmt.Sprintf("%s/%s/%s/%s/%s/d%d", a.name, wtc, o.kind, x.mode, x.entry, len(path))]++
				}
			}
		}
	}
	// Range
	visited := map[int]int{}
	nonNil := map[int]bool{}
	if pi := monitor.Try(func() {
		r.Range(func(tag int, f *lazyproto.FieldData) bool {
			visited[tag]++
			if f != nil {
				nonNil[tag] = true
			}
			return true
		})
	}); pi != nil {
		x.viol("Range", "panic", "Range panicked: "+pi.Value, path, map[string]any{"frame": pi.Frame})
	} else if !empty || len(visited) > 0 {
		x.evals++
		for _, t := range tags {
			if visited[t] != 1 {
				x.viol("Range", "visit-count", fmt.Sprintf("Range visited declared tag %d %d times", t, visited[t]), path, nil)
			} else if nonNil[t] != (len(l.byNum[t]) > 0) {
				x.viol("Range", "nil-ness", fmt.Sprintf("Range passed nil=%v for tag %d with %d occurrence(s)", !nonNil[t], t, len(l.byNum[t])), path, nil)
			}
		}
		if len(visited) != len(tags) {
			x.viol("Range", "extra-tags", fmt.Sprintf("Range visited %d tags, %d are declared", len(visited), len(tags)), path, nil)
		}
	}
	if depth <= 0 {
		return
	}
	// nested access
	for _, t := range cands {
		if l.mixed[t] {
			continue
		}
		x.nested(r, l, def, t, path, empty, depth)
	}
}

func (x *exerciser) nested(r *lazyproto.DecodeResult, l *level, def lazyproto.Def, t int, path []int, empty bool, depth int) {
	occ := l.byNum[t]
	sub := nestedDef(def, t)
	var nr *lazyproto.DecodeResult
	var err error
	pi := monitor.Try(func() { nr, err = r.NestedResult(t) })
	x.evals++
	p := append(append([]int(nil), path...), t)
	if pi != nil {
		cls := "present"
		switch {
		case len(occ) == 0:
			cls = "absent"
		case occ[0].WT == refwire.WTLen && len(occ[len(occ)-1].Payload) == 0:
			cls = "empty-payload"
		}
		x.viol("NestedResult", "panic:"+cls, fmt.Sprintf("NestedResult(%d) panicked: %s", t, pi.Value), p, map[string]any{"frame": pi.Frame})
		return
	}
	var nrs []*lazyproto.DecodeResult
	var errs error
	pis := monitor.Try(func() { nrs, errs = r.NestedResults(t) })
	x.evals++
	if pis != nil {
		x.viol("NestedResults", "panic", fmt.Sprintf("NestedResults(%d) panicked: %s", t, pis.Value), p, map[string]any{"frame": pis.Frame})
		return
	}
	if nr != nil {
		x.nestedSeen = append(x.nestedSeen, nr)
	}
	x.nestedSeen = append(x.nestedSeen, nrs...)
	switch {
	case !declared(def, t):
		if err == nil || !errors.Is(err, lazyproto.ErrTagNotDefined) {
			x.viol("NestedResult", "undeclared-tag", fmt.Sprintf("NestedResult(%d) on an undeclared tag returned err=%v", t, err), p, nil)
		}
		if errs == nil || !errors.Is(errs, lazyproto.ErrTagNotDefined) {
			x.viol("NestedResults", "undeclared-tag", fmt.Sprintf("NestedResults(%d) on an undeclared tag returned err=%v", t, errs), p, nil)
		}
		return
	case sub == nil:
		if err == nil || !errors.Is(err, lazyproto.ErrTagNotFound) {
			x.viol("NestedResult", "no-nesting", fmt.Sprintf("NestedResult(%d) on a tag declared without nesting returned err=%v", t, err), p, nil)
		}
		if errs == nil || !errors.Is(errs, lazyproto.ErrTagNotFound) {
			x.viol("NestedResults", "no-nesting", fmt.Sprintf("NestedResults(%d) on a tag declared without nesting returned err=%v", t, errs), p, nil)
		}
		return
	case len(occ) == 0:
		if err == nil || !errors.Is(err, lazyproto.ErrTagNotFound) {
			x.viol("NestedResult", "absent-tag", fmt.Sprintf("NestedResult(%d) on an absent tag returned err=%v", t, err), p, nil)
		}
		if errs == nil || !errors.Is(errs, lazyproto.ErrTagNotFound) {
			x.viol("NestedResults", "absent-tag", fmt.Sprintf("NestedResults(%d) on an absent tag returned err=%v", t, errs), p, nil)
		}
		return
	case occ[0].WT != refwire.WTLen:
		var mm *lazyproto.WireTypeMismatchError
		if err == nil || !errors.As(err, &mm) {
			x.viol("NestedResult", "wire-type-mismatch:"+wtName(occ[0].WT), fmt.Sprintf("NestedResult(%d) on a %s field returned err=%v", t, wtName(occ[0].WT), err), p, nil)
		}
		if errs == nil {
			x.viol("NestedResults", "wire-type-mismatch:"+wtName(occ[0].WT), fmt.Sprintf("NestedResults(%d) on a %s field returned %d results and no error", t, wtName(occ[0].WT), len(nrs)), p, nil)
		}
		return
	}
	// length-delimited: judge the last payload for NestedResult, every payload for NestedResults
	okLevel := func(pl []byte) (*level, bool) {
		sl := walkLevel(pl)
		if !sl.wellFormed {
			return sl, false
		}
		for st := range sub {
			if sl.mixed[abs(st)] {
				return sl, false
			}
		}
		return sl, true
	}
	last := occ[len(occ)-1].Payload
	if sl, ok := okLevel(last); ok {
		if err != nil || nr == nil {
			x.viol("NestedResult", "well-formed-rejected", fmt.Sprintf("NestedResult(%d) failed on a well-formed nested message (%d bytes): %v", t, len(last), err), p, nil)
		} else {
			x.classes[fmt.Sprintf("NestedResult/len%s/%s/%s/d%d", lenClass(len(last)), x.mode, x.entry, len(path))]++
			x.result(nr, sl, sub, p, len(last) == 0, depth-1)
			if x.hold != nil && len(path) == 0 {
				*x.hold = append(*x.hold, heldNested{nr: nr, l: sl, def: sub, path: p, empty: len(last) == 0})
			}
		}
	}
	allOK := true
	levels := make([]*level, len(occ))
	for i, f := range occ {
		sl, ok := okLevel(f.Payload)
		levels[i] = sl
		allOK = allOK && ok
	}
	if allOK {
		switch {
		case errs != nil:
			x.viol("NestedResults", "well-formed-rejected", fmt.Sprintf("NestedResults(%d) failed on %d well-formed nested messages: %v", t, len(occ), errs), p, nil)
		case len(nrs) != len(occ):
			x.viol("NestedResults", "count", fmt.Sprintf("NestedResults(%d) returned %d results for %d occurrences", t, len(nrs), len(occ)), p, nil)
		default:
			x.classes[fmt.Sprintf("NestedResults/n%s/%s/%s", cntClass(len(occ)), x.mode, x.entry)]++
			for i, sr := range nrs {
				if sr == nil {
					x.viol("NestedResults", "nil-element", fmt.Sprintf("NestedResults(%d)[%d] is nil", t, i), p, nil)
					continue
				}
				x.result(sr, levels[i], sub, append(p, i), len(occ[i].Payload) == 0, 0)
			}
			// a caller may Close the nested results it was given (as in `defer n.Close()` inside a loop) although the
			// parent owns them: that must disturb neither the parent nor what later decodes with the same decoder see
			if (t+len(occ))%2 == 0 {
				for _, sr := range nrs {
					if sr != nil {
						_ = monitor.Try(func() { _ = sr.Close() })
					}
				}
				x.classes["NestedResults/closed-by-caller/"+x.mode+"/"+x.entry]++
			}
		}
	}
	// multi-element path through FieldData
	if sl, ok := okLevel(last); ok {
		for i, st := range sortedTags(sub) {
			if i >= 2 || sl.mixed[st] {
				break
			}
			var fd *lazyproto.FieldData
			var e error
			if pi := monitor.Try(func() { fd, e = r.FieldData(t, st) }); pi != nil {
				x.viol("FieldDataPath", "panic", fmt.Sprintf("FieldData(%d,%d) panicked: %s", t, st, pi.Value), append(p, st), map[string]any{"frame": pi.Frame})
				continue
			}
			x.evals++
			present := len(sl.byNum[st]) > 0
			if present != (e == nil && fd != nil) {
				x.viol("FieldDataPath", "presence", fmt.Sprintf("FieldData(%d,%d): reference presence %v, got err=%v", t, st, present, e), append(p, st), nil)
				continue
			}
			if fd != nil {
				for ai := range accessors {
					a := &accessors[ai]
					o := expect(sl, sub, a, st, false)
					var g got
					var ge error
					if pi := monitor.Try(func() { g, ge = a.onFD(fd) }); pi != nil {
						x.viol(a.name, "panic:path", a.name+" via FieldData path panicked: "+pi.Value, append(p, st), nil)
						continue
					}
					x.evals++
					if f := judge(o, g, ge); f != "" {
						x.viol(a.name, f+":path", fmt.Sprintf("%s via FieldData(%d,%d): expected %s, got %s", a.name, t, st, describe(o), describeGot(g, ge)), append(p, st), nil)
					}
				}
			}
		}
	}
}

func lenClass(n int) string {
	switch {
	case n == 0:
		return "0"
	case n < 16:
		return "<16"
	}
	return ">=16"
}

func cntClass(n int) string {
	switch {
	case n <= 1:
		return "1"
	case n <= 5:
		return "2-5"
	}
	return ">5"
}

// remember snapshots a handed-out blob value so that later mutation of it can be detected.
func (x *exerciser) remember(what string, g got) {
	if len(x.handed) > 64 {
		return
	}
	snap := got{blobs: make([][]byte, len(g.blobs))}
	for i, b := range g.blobs {
		snap.blobs[i] = append([]byte(nil), b...)
	}
	x.handed = append(x.handed, handedValue{what: what, live: g, snap: snap})
}

func (x *exerciser) flush() {
	x.res.Eval(x.evals)
	x.evals = 0
	x.res.MergeClasses(x.classes)
	x.classes = map[string]int64{}
}
