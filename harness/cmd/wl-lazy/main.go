// wl-lazy is the workload binary for lazyproto: C13, C14, C15 and the lazy half of C10.
package main

import (
	"flag"
	"fmt"
	"os"
	"strconv"
	"strings"
	"time"

	"verifharness/monitor"
)

type config struct {
	prop     string
	tier     string
	seed     int64
	shard    int
	nshard   int
	out      string
	progress *monitor.Progress
	replay   string
}

func (c *config) thorough() bool  { return c.tier == "thorough" }
func (c *config) mine(i int) bool { return i%c.nshard == c.shard }

func main() {
	var (
		prop   = flag.String("prop", "", "property id")
		tier   = flag.String("tier", "quick", "quick|thorough")
		seed   = flag.Int64("seed", 1, "VERIF_SEED")
		shard  = flag.String("shard", "0/1", "i/n")
		out    = flag.String("out", "", "result file")
		prog   = flag.String("progress", "", "progress (current case) file")
		replay = flag.String("replay", "", "replay witness file")
	)
	flag.Parse()
	cfg := &config{prop: *prop, tier: *tier, seed: *seed, out: *out, replay: *replay}
	parts := strings.Split(*shard, "/")
	cfg.shard, _ = strconv.Atoi(parts[0])
	cfg.nshard, _ = strconv.Atoi(parts[1])
	if cfg.nshard < 1 {
		cfg.nshard = 1
	}
	p, err := monitor.OpenProgress(*prog)
	if err != nil {
		fmt.Fprintln(os.Stderr, "progress:", err)
		os.Exit(3)
	}
	cfg.progress = p
	res := monitor.New(cfg.prop, cfg.tier, cfg.seed, *shard)
	start := time.Now()
	if cfg.replay != "" {
		runReplay(cfg, res)
	} else {
		switch cfg.prop {
		case "C13":
			runC13(cfg, res)
		case "C14":
			runC14(cfg, res)
		case "C15":
			runC15(cfg, res)
		case "C10":
			runC10(cfg, res)
		default:
			fmt.Fprintln(os.Stderr, "unknown property", cfg.prop)
			os.Exit(3)
		}
	}
	res.Extra("wall_ms", time.Since(start).Milliseconds())
	cfg.progress.Set("done")
	if cfg.out != "" {
		if err := res.Write(cfg.out); err != nil {
			fmt.Fprintln(os.Stderr, "write result:", err)
			os.Exit(3)
		}
	}
}
