package main

import (
	"fmt"
	"runtime"
	"sync"
	"sync/atomic"
	"time"

	"github.com/CrowdStrike/csproto"
	"github.com/CrowdStrike/csproto/lazyproto"

	"verifharness/monitor"
)

// C15: one lazy Decoder shared by many goroutines; every goroutine must observe exactly the values of
// its own inputs; the race detector (this binary is built with -race for the registered check) must stay
// silent.

type boundaryLog struct {
	mu        sync.Mutex
	lastOwner map[*lazyproto.DecodeResult]int // goroutine that last released the object (+1), 0 = never seen
	handovers int64
	reuses    int64
	events    []uint16 // (op<<8 | goroutine) in global order, bounded
	grams     map[uint64]struct{}
}

func (b *boundaryLog) acquire(g int, r *lazyproto.DecodeResult) {
	b.mu.Lock()
	if prev := b.lastOwner[r]; prev != 0 {
		b.reuses++
		if prev != g+1 {
			b.handovers++
		}
	}
	b.event(0, g)
	b.mu.Unlock()
}

func (b *boundaryLog) release(g int, r *lazyproto.DecodeResult) {
	b.mu.Lock()
	b.lastOwner[r] = g + 1
	b.event(1, g)
	b.mu.Unlock()
}

func (b *boundaryLog) event(op, g int) {
	e := uint16(op<<8 | g&0xff)
	b.events = append(b.events, e)
	if n := len(b.events); n >= 4 {
		k := uint64(b.events[n-4])<<48 | uint64(b.events[n-3])<<32 | uint64(b.events[n-2])<<16 | uint64(b.events[n-1])
		if len(b.grams) < 1<<20 {
			b.grams[k] = struct{}{}
		}
		if n > 1<<16 {
			b.events = append(b.events[:0], b.events[n-3:]...)
		}
	}
}

func runC15(cfg *config, res *monitor.Result) {
	iters := 800
	if cfg.thorough() {
		iters = 6000
	}
	// yield policy at the verif points: decided by a hash of a global counter and the seed
	var ctr atomic.Uint64
	var siteHits sync.Map
	seed := uint64(cfg.seed)*0x9E3779B97F4A7C15 + uint64(cfg.shard)
	hook := func(site string) {
		n := ctr.Add(1)
		if c, ok := siteHits.Load(site); ok {
			c.(*atomic.Int64).Add(1)
		} else {
			c, _ := siteHits.LoadOrStore(site, new(atomic.Int64))
			c.(*atomic.Int64).Add(1)
		}
		z := (n ^ seed) * 0xBF58476D1CE4E5B9
		z ^= z >> 29
		switch z % 24 {
		case 0, 1, 2:
			runtime.Gosched()
		case 3:
			time.Sleep(time.Microsecond)
		case 4:
			if z>>8%64 == 0 {
				time.Sleep(50 * time.Microsecond)
			}
		}
	}
	lazyproto.VerifHook.Store(&hook)
	def := c14Def()
	type shape struct {
		v, s, n, n4 int
		empty       bool
	}
	shapes := []shape{{1, 1, 1, 0, false}, {2, 0, 3, 1, false}, {5, 2, 9, 0, true}, {9, 5, 0, 3, false}, {0, 1, 1, 1, true}, {3, 4, 4, 2, false}}
	configs := []struct {
		g, procs int
		fast     bool
		maxBuf   int
		filter   string // "" | "zero" (always shrink to 0) | "one" (shrink to 1) | "yield" (shrink to 0, yielding inside the callback)
	}{
		{2, 1, false, -1, ""}, {8, 2, false, 1, ""}, {64, 16, false, -1, ""}, {8, 16, true, -1, ""}, {64, 2, true, 2, ""}, {16, 16, false, 0, ""}, {2, 16, true, -1, ""}, {32, 1, false, 2, ""},
		{8, 16, false, -1, "zero"}, {16, 2, true, -1, "one"}, {8, 1, false, -1, "yield"}, {32, 16, true, -1, "yield"},
	}
	blog := &boundaryLog{lastOwner: map[*lazyproto.DecodeResult]int{}, grams: map[uint64]struct{}{}}
	for ci, c := range configs {
		if !cfg.mine(ci) {
			continue
		}
		runtime.GOMAXPROCS(c.procs)
		mode := csproto.DecoderModeSafe
		if c.fast {
			mode = csproto.DecoderModeFast
		}
		opts := []lazyproto.Option{lazyproto.WithMode(mode)}
		if c.maxBuf >= 0 {
			opts = append(opts, lazyproto.WithMaxBufferSize(c.maxBuf))
		}
		switch c.filter {
		case "zero":
			opts = append(opts, lazyproto.WithBufferFilterFunc(func(int) int { return 0 }))
		case "one":
			opts = append(opts, lazyproto.WithBufferFilterFunc(func(int) int { return 1 }))
		case "yield":
			// caller-supplied code that takes its time: whatever Close() does around it must not be visible to others
			opts = append(opts, lazyproto.WithBufferFilterFunc(func(int) int { runtime.Gosched(); return 0 }))
		}
		dec, err := lazyproto.NewDecoder(def, opts...)
		if err != nil {
			res.Inconc("NewDecoder: " + err.Error())
			continue
		}
		cfgName := fmt.Sprintf("G%d/procs%d/%s/max%d", c.g, c.procs, modeStr(c.fast), c.maxBuf)
		if c.filter != "" {
			cfgName += "/filter-" + c.filter
		}
		cfg.progress.Set("c15", cfgName)
		var wg sync.WaitGroup
		start := make(chan struct{})
		per := iters * 8 / c.g
		if per < 20 {
			per = 20
		}
		for g := 0; g < c.g; g++ {
			wg.Add(1)
			go func(g int) {
				defer wg.Done()
				r := monitor.NewRand(cfg.seed, "c15", ci, g)
				x := &exerciser{res: res, prop: "C15", classes: map[string]int64{}, def: def, entry: "shared-decoder", mode: modeStr(c.fast),
					extra: map[string]any{"config": cfgName, "goroutine": g}}
				<-start
				for it := 0; it < per; it++ {
					if g%4 == 1 && it%5 == 2 {
						// a faulty feed: the outer message is valid, some nested elements are not; nested access fails
						// cleanly and the result is closed as usual. Nobody else may be affected by it.
						bad := corruptNestedInput(r, byte(g*7+it%5))
						if pi := monitor.Try(func() {
							if dr, err := dec.Decode(bad); err == nil && dr != nil {
								_, _ = dr.NestedResults(3)
								_, _ = dr.NestedResult(4)
								_, _ = dr.NestedResults(4)
								_ = dr.Close()
							}
						}); pi != nil {
							x.input = bad
							x.viol("FaultyFeed", "panic", "decoding / reading a message with corrupt nested elements panicked: "+pi.Value, nil, map[string]any{"frame": pi.Frame})
						}
						x.classes["concurrent-faulty-feed/"+cfgName]++
					}
					sh := shapes[r.Intn(len(shapes))]
					// mark is unique per goroutine (mod 256) and iteration parity so foreign values are recognisable
					mark := byte(g*7 + it%5)
					in := shapedInput(r, mark, sh.v, sh.s, sh.n, sh.n4, sh.empty)
					lvl := walkLevel(in)
					var dr *lazyproto.DecodeResult
					var err error
					if pi := monitor.Try(func() { dr, err = dec.Decode(in) }); pi != nil {
						x.input = in
						x.viol("Decode", "panic", "Decode panicked: "+pi.Value, nil, map[string]any{"frame": pi.Frame})
						continue
					}
					if err != nil || dr == nil {
						x.input = in
						x.viol("Decode", "well-formed-rejected", fmt.Sprintf("Decode failed on a well-formed input: %v", err), nil, nil)
						continue
					}
					blog.acquire(g, dr)
					x.input = in
					x.nestedSeen = x.nestedSeen[:0]
					x.result(dr, lvl, def, nil, false, 2)
					if it%3 == 0 {
						runtime.Gosched()
					}
					blog.release(g, dr)
					if pi := monitor.Try(func() { err = dr.Close() }); pi != nil {
						x.viol("Close", "panic", "Close panicked: "+pi.Value, nil, map[string]any{"frame": pi.Frame})
					}
					x.evals++
				}
				x.classes["concurrent/"+cfgName] += int64(per)
				x.flush()
			}(g)
		}
		close(start)
		wg.Wait()
		if ci == 0 || cfg.nshard > 1 && ci == cfg.shard {
			res.Sample(map[string]any{"family": "shared decoder", "config": cfgName, "iterations_per_goroutine": per, "def": defString(def)})
		}
	}
	runtime.GOMAXPROCS(runtime.NumCPU())
	blog.mu.Lock()
	res.Extra("cross_goroutine_handovers", blog.handovers)
	res.Extra("result_object_reuses", blog.reuses)
	res.Extra("distinct_boundary_4grams", int64(len(blog.grams)))
	blog.mu.Unlock()
	siteHits.Range(func(k, v any) bool {
		res.Extra("site:"+k.(string), v.(*atomic.Int64).Load())
		return true
	})
}
