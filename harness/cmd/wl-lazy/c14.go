package main

import (
	"fmt"
	"runtime"
	"runtime/debug"
	"sync"

	"github.com/CrowdStrike/csproto"
	"github.com/CrowdStrike/csproto/lazyproto"

	"verifharness/monitor"
	"verifharness/refwire"
)

// shapedInput builds an input over the fixed tag universe of c14Def with the given repeat counts.
// mark makes every payload recognisable as belonging to this input.
func shapedInput(r *monitor.Rand, mark byte, nVar, nStr, nNested, nNested4 int, emptyNested bool) []byte {
	var b []byte
	for i := 0; i < nVar; i++ {
		b = refwire.AppendKey(b, 1, 0)
		b = refwire.AppendVarint(b, uint64(mark)<<8|uint64(i))
	}
	for i := 0; i < nStr; i++ {
		b = refwire.AppendKey(b, 2, 2)
		b = refwire.AppendLen(b, []byte{mark, 's', byte(i), byte(r.Intn(256))})
	}
	for i := 0; i < nNested; i++ {
		var p []byte
		if !(emptyNested && i%2 == 1) {
			p = refwire.AppendKey(p, 1, 0)
			p = refwire.AppendVarint(p, uint64(mark)<<16|uint64(i))
			if i%3 != 2 {
				if mark%3 == 0 {
					// this input writes nested tag 2 as a varint where others write a string: the wire type of a tag is a
					// property of the message, a recycled result must not remember the one of an earlier input
					p = refwire.AppendKey(p, 2, 0)
					p = refwire.AppendVarint(p, uint64(mark)<<8|uint64(i))
				} else {
					p = refwire.AppendKey(p, 2, 2)
					p = refwire.AppendLen(p, []byte{mark, 'n', byte(i)})
				}
			}
			if i%2 == 0 {
				var q []byte
				q = refwire.AppendKey(q, 1, 5)
				q = refwire.AppendFixed32(q, uint32(mark)<<8|uint32(i))
				p = refwire.AppendKey(p, 3, 2)
				p = refwire.AppendLen(p, q)
			}
		}
		b = refwire.AppendKey(b, 3, 2)
		b = refwire.AppendLen(b, p)
	}
	for i := 0; i < nNested4; i++ {
		var p []byte
		p = refwire.AppendKey(p, 1, 1)
		p = refwire.AppendFixed64(p, uint64(mark)<<32|uint64(i))
		b = refwire.AppendKey(b, 4, 2)
		b = refwire.AppendLen(b, p)
	}
	if r.Chance(1, 2) {
		// declared tag 5 with a wire type that changes from input to input (one wire type within the message)
		wt := []int{0, 5, 1, 2}[int(mark)%4]
		for k := 1 + r.Intn(2); k > 0; k-- {
			b = refwire.AppendKey(b, 5, wt)
			switch wt {
			case 0:
				b = refwire.AppendVarint(b, uint64(mark)<<8|uint64(k))
			case 5:
				b = refwire.AppendFixed32(b, uint32(mark)<<8|uint32(k))
			case 1:
				b = refwire.AppendFixed64(b, uint64(mark)<<8|uint64(k))
			default:
				b = refwire.AppendLen(b, []byte{mark, 'w', byte(k)})
			}
		}
	}
	if r.Chance(1, 3) { // an undeclared field
		b = refwire.AppendKey(b, 9, 0)
		b = refwire.AppendVarint(b, 77)
	}
	if len(b) == 0 { // keep inputs non-empty: Decode returns a nil result for empty input
		b = refwire.AppendKey(b, 9, 0)
		b = refwire.AppendVarint(b, uint64(mark))
	}
	return b
}

func c14Def() lazyproto.Def {
	d := lazyproto.NewDef(1, 2, 5)
	n3 := d.NestedTag(3, 1, 2)
	n3.NestedTag(3, 1)
	d.NestedTag(4, 1)
	d.Tags(-3)
	return d
}

type c14Option struct {
	fast      bool
	maxBuffer int // -1: none
	filter    string
}

func (o c14Option) String() string {
	return fmt.Sprintf("%s/max%d/filter-%s", modeStr(o.fast), o.maxBuffer, o.filter)
}

func (o c14Option) opts() []lazyproto.Option {
	mode := csproto.DecoderModeSafe
	if o.fast {
		mode = csproto.DecoderModeFast
	}
	out := []lazyproto.Option{lazyproto.WithMode(mode)}
	if o.maxBuffer >= 0 {
		out = append(out, lazyproto.WithMaxBufferSize(o.maxBuffer))
	}
	switch o.filter {
	case "halve":
		out = append(out, lazyproto.WithBufferFilterFunc(func(c int) int { return c / 2 }))
	case "zero":
		out = append(out, lazyproto.WithBufferFilterFunc(func(c int) int { return 0 }))
	case "negative":
		out = append(out, lazyproto.WithBufferFilterFunc(func(c int) int { return -1 }))
	}
	return out
}

// handOutMonitor checks the state invariant at the pool hand-out hook and counts recycled objects.
type handOutMonitor struct {
	mu        sync.Mutex
	seen      map[*lazyproto.DecodeResult]int
	handOuts  int64
	recycled  int64
	dirty     []string
	curOption string
}

func (m *handOutMonitor) install() {
	m.seen = map[*lazyproto.DecodeResult]int{}
	fn := func(r *lazyproto.DecodeResult, st lazyproto.VerifResultState) {
		m.mu.Lock()
		defer m.mu.Unlock()
		m.handOuts++
		if m.seen[r] > 0 {
			m.recycled++
		}
		m.seen[r]++
		if st.NonEmptyFlat != 0 || st.ClosersLen != 0 || st.NilFlat != 0 {
			if len(m.dirty) < 20 {
				m.dirty = append(m.dirty, fmt.Sprintf("%s: non-empty field data=%d nil field data=%d closers len=%d (nil entries %d) recycled=%v",
					m.curOption, st.NonEmptyFlat, st.NilFlat, st.ClosersLen, st.NilClosers, m.seen[r] > 1))
			}
		}
	}
	lazyproto.VerifHandOut.Store(&fn)
}

func (m *handOutMonitor) setOption(s string) {
	m.mu.Lock()
	m.curOption = s
	m.mu.Unlock()
}

func (m *handOutMonitor) reset() {
	// forget identities after a GC cycle: addresses may be reused by new objects
	m.mu.Lock()
	m.seen = map[*lazyproto.DecodeResult]int{}
	m.mu.Unlock()
}

type liveResult struct {
	r      *lazyproto.DecodeResult
	input  []byte
	lvl    *level
	handed []handedValue
	id     int
}

func runC14(cfg *config, res *monitor.Result) {
	debug.SetGCPercent(-1) // keep the pools from being drained so that reuse really happens
	nseq := 5000
	if cfg.thorough() {
		nseq = 100000
	}
	mon := &handOutMonitor{}
	mon.install()
	def := c14Def()
	r := monitor.NewRand(cfg.seed, "c14", cfg.shard)
	x := &exerciser{res: res, prop: "C14", classes: map[string]int64{}, def: def, entry: "decoder"}
	var options []c14Option
	for _, fast := range []bool{false, true} {
		for _, mb := range []int{-1, 0, 1, 2, 1024} {
			for _, f := range []string{"none", "halve", "zero", "negative"} {
				options = append(options, c14Option{fast, mb, f})
			}
		}
	}
	// input pool: deliberately different shapes
	type shape struct {
		v, s, n, n4 int
		empty       bool
	}
	shapes := []shape{{0, 0, 0, 0, false}, {1, 1, 1, 0, false}, {2, 0, 3, 1, false}, {5, 2, 9, 0, true}, {40, 5, 0, 3, false},
		{0, 1, 1, 1, true}, {1, 0, 2, 0, true}, {3, 40, 4, 9, false}, {0, 0, 9, 0, false}, {2, 2, 0, 0, false}}
	stale := int64(0)
	for s := 0; s < nseq/cfg.nshard; s++ {
		opt := options[(s*cfg.nshard+cfg.shard)%len(options)]
		mon.setOption(opt.String())
		dec, err := lazyproto.NewDecoder(def, opt.opts()...)
		if err != nil {
			res.Inconc("NewDecoder failed: " + err.Error())
			continue
		}
		x.mode = modeStr(opt.fast)
		x.extra = map[string]any{"options": opt.String(), "sequence": s}
		var live []*liveResult
		var closedHanded []handedValue // safe mode: values handed out by results that are closed now
		var trace []string
		nops := 5 + r.Intn(56)
		nextID := 0
		closeOne := func(i int) {
			lr := live[i]
			live = append(live[:i], live[i+1:]...)
			trace = append(trace, fmt.Sprintf("close#%d", lr.id))
			cfg.progress.Set("c14", opt.String(), fmt.Sprint(trace))
			var err error
			if pi := monitor.Try(func() { err = lr.r.Close() }); pi != nil {
				x.input = lr.input
				x.viol("Close", "panic", "Close panicked: "+pi.Value, nil, map[string]any{"trace": fmt.Sprint(trace), "frame": pi.Frame})
			} else if err != nil {
				x.input = lr.input
				x.viol("Close", "error", "Close failed: "+err.Error(), nil, map[string]any{"trace": fmt.Sprint(trace)})
			}
			x.evals++
			if !opt.fast {
				closedHanded = append(closedHanded, lr.handed...)
				if len(closedHanded) > 400 {
					closedHanded = closedHanded[len(closedHanded)-400:]
				}
			}
		}
		for op := 0; op < nops; op++ {
			switch c := r.Intn(10); {
			case c == 0 && r.Chance(1, 2): // a message whose nested payloads go corrupt after some requested fields
				mark := byte(0x61 + (nextID % 26))
				bad := corruptNestedInput(r, mark)
				trace = append(trace, "decode-corrupt-nested")
				cfg.progress.Set("c14", opt.String(), fmt.Sprint(trace))
				if pi := monitor.Try(func() {
					dr, err := dec.Decode(bad)
					if err == nil && dr != nil {
						// the outer level is valid: nested access must fail cleanly, then the result is closed
						_, _ = dr.NestedResult(3)
						_, _ = dr.NestedResults(3)
						_, _ = dr.NestedResults(4)
						_, _ = dr.FieldData(3, 1)
						_ = dr.Close()
					}
				}); pi != nil {
					x.input = bad
					x.viol("CorruptNested", "panic", "decoding / reading a message with a corrupt nested payload panicked: "+pi.Value, nil, map[string]any{"trace": fmt.Sprint(trace), "frame": pi.Frame})
				}
				x.evals++
			case c < 4 && len(live) < 4: // decode
				sh := shapes[r.Intn(len(shapes))]
				mark := byte(0x41 + (nextID % 26))
				in := shapedInput(r, mark, sh.v, sh.s, sh.n, sh.n4, sh.empty)
				trace = append(trace, fmt.Sprintf("decode#%d(v%d,s%d,n%d,m%d,e%v)", nextID, sh.v, sh.s, sh.n, sh.n4, sh.empty))
				cfg.progress.Set("c14", opt.String(), fmt.Sprint(trace))
				var dr *lazyproto.DecodeResult
				var err error
				if pi := monitor.Try(func() { dr, err = dec.Decode(in) }); pi != nil {
					x.input = in
					x.viol("Decode", "panic", "Decode panicked: "+pi.Value, nil, map[string]any{"trace": fmt.Sprint(trace), "frame": pi.Frame})
					continue
				}
				x.evals++
				if err != nil || dr == nil {
					x.input = in
					x.viol("Decode", "well-formed-rejected", fmt.Sprintf("Decode failed on a well-formed input: %v", err), nil, map[string]any{"trace": fmt.Sprint(trace)})
					continue
				}
				live = append(live, &liveResult{r: dr, input: in, lvl: walkLevel(in), id: nextID})
				nextID++
			case c < 8 && len(live) > 0: // access everything of one live result (takes nested results too)
				lr := live[r.Intn(len(live))]
				trace = append(trace, fmt.Sprintf("read#%d", lr.id))
				cfg.progress.Set("c14", opt.String(), fmt.Sprint(trace))
				x.input = lr.input
				x.extra["trace"] = fmt.Sprint(trace)
				x.keep = !opt.fast
				x.handed = nil
				before := x.violated
				x.violated = false
				x.result(lr.r, lr.lvl, def, nil, false, 2)
				if x.violated {
					stale++
				}
				x.violated = x.violated || before
				lr.handed = append(lr.handed, x.handed...)
				x.handed = nil
				if mon.recycledNow() > 0 {
					x.classes[fmt.Sprintf("reuse/%s/%s", opt.String(), bigram(trace))]++
				}
			case len(live) > 0:
				closeOne(r.Intn(len(live)))
			}
			// safe mode: everything handed out earlier (by live and closed results) must be intact
			if !opt.fast && op%4 == 3 {
				for _, lr := range live {
					for i := range lr.handed {
						x.evals++
						if !lr.handed[i].intact() {
							x.input = lr.input
							x.viol("Stability", "live-value-changed", "a value handed out in safe mode changed while its result was still open: "+lr.handed[i].what, nil, map[string]any{"trace": fmt.Sprint(trace)})
						}
					}
				}
				for i := range closedHanded {
					x.evals++
					if !closedHanded[i].intact() {
						x.viol("Stability", "value-changed-after-close", "a value handed out in safe mode changed after Close / later decodes: "+closedHanded[i].what, nil, map[string]any{"trace": fmt.Sprint(trace)})
					}
				}
			}
		}
		for len(live) > 0 {
			closeOne(len(live) - 1)
		}
		for i := range closedHanded {
			x.evals++
			if !closedHanded[i].intact() {
				x.viol("Stability", "value-changed-after-close", "a value handed out in safe mode changed after Close / later decodes: "+closedHanded[i].what, nil, map[string]any{"trace": fmt.Sprint(trace)})
			}
		}
		if s == 0 && cfg.shard == 0 {
			res.Sample(map[string]any{"family": "pool reuse sequence", "options": opt.String(), "ops": trace})
		}
		if s%200 == 199 {
			x.flush()
			mon.reset()
			runtime.GC()
		}
	}
	x.flush()
	mon.mu.Lock()
	res.Extra("pool_handouts", mon.handOuts)
	res.Extra("recycled_handouts", mon.recycled)
	for _, d := range mon.dirty {
		res.Violate("C14:HandOut:not-empty", "the pool handed out a result that was not empty: "+d, map[string]any{"state": d})
	}
	mon.mu.Unlock()
	res.Extra("reads_with_violation", stale)
}

func (m *handOutMonitor) recycledNow() int64 {
	m.mu.Lock()
	defer m.mu.Unlock()
	return m.recycled
}

func bigram(trace []string) string {
	kind := func(s string) string {
		for i := 0; i < len(s); i++ {
			if s[i] == '#' {
				return s[:i]
			}
		}
		return s
	}
	n := len(trace)
	if n < 2 {
		return "-"
	}
	return kind(trace[n-2]) + ">" + kind(trace[n-1])
}

// corruptNestedInput builds a message that is well-formed at the top level but whose nested payloads
// (tags 3 and 4 of c14Def) become malformed after a few requested fields.
func corruptNestedInput(r *monitor.Rand, mark byte) []byte {
	var b []byte
	b = refwire.AppendKey(b, 1, 0)
	b = refwire.AppendVarint(b, uint64(mark))
	n := 1 + r.Intn(3)
	goodFirst := 0 // well-formed elements ahead of the corrupt ones (they are decoded before the failure is met)
	if r.Bool() {
		goodFirst = 1 + r.Intn(3)
		n += goodFirst
	}
	tagAll := 3
	if r.Chance(1, 3) {
		tagAll = 4
	}
	for i := 0; i < n; i++ {
		var p []byte
		p = refwire.AppendKey(p, 1, 0)
		p = refwire.AppendVarint(p, uint64(mark)<<8|0x66)
		p = refwire.AppendKey(p, 2, 2)
		p = refwire.AppendLen(p, []byte{mark, 'b', 'a', 'd'})
		if i < goodFirst {
			b = refwire.AppendKey(b, tagAll, 2)
			b = refwire.AppendLen(b, p)
			continue
		}
		switch r.Intn(3) {
		case 0:
			p = append(p, 0x1a, 0x7f) // length-delimited field declaring more than is left
		case 1:
			p = append(p, 0x08, 0x80) // truncated varint
		default:
			p = append(p, 0x0b) // group wire type
		}
		tag := 3
		if r.Chance(1, 3) {
			tag = 4
		}
		if goodFirst > 0 {
			tag = tagAll
		}
		b = refwire.AppendKey(b, tag, 2)
		b = refwire.AppendLen(b, p)
	}
	return b
}
