package main

import (
	"bytes"
	"fmt"
	"os"
	"os/exec"
	"path/filepath"
	"strings"

	"verifharness/monitor"
	"verifharness/refwire"
)

// C20 (second half): the real protodump binary (path in VERIF_PROTODUMP, built from the tree under test)
// is run on seeded valid and malformed messages; its output is compared with a renderer written from the
// documented format over a refwire walk.

var wtNames = map[int]string{0: "varint", 1: "fixed64", 2: "length-delimited", 5: "fixed32"}

type dnode struct {
	num, wt  int
	val      uint64
	payload  []byte
	children []*dnode // non-nil when generated as a nested message
	isMsg    bool
}

func genDumpMsg(r *monitor.Rand, depth int) (b []byte, nodes []*dnode) {
	n := 1 + r.Intn(6)
	for i := 0; i < n; i++ {
		num := []int{1, 2, 3, 4, 5, 15, 16, 2047, 1 << 21, 1<<29 - 1, 1 << 26}[r.Intn(11)]
		nd := &dnode{num: num}
		switch r.Intn(5) {
		case 0:
			nd.wt, nd.val = 0, randVarint64(r)
			b = refwire.AppendVarint(refwire.AppendKey(b, num, 0), nd.val)
		case 1:
			nd.wt, nd.val = 1, r.Uint64()
			b = refwire.AppendFixed64(refwire.AppendKey(b, num, 1), nd.val)
		case 2:
			nd.wt, nd.val = 5, uint64(uint32(r.Uint64()))
			b = refwire.AppendFixed32(refwire.AppendKey(b, num, 5), uint32(nd.val))
		case 3:
			nd.wt = 2
			if depth > 0 {
				nd.isMsg = true
				nd.payload, nd.children = genDumpMsg(r, depth-1)
			}
			b = refwire.AppendLen(refwire.AppendKey(b, num, 2), nd.payload)
		default:
			nd.wt = 2
			words := []string{"", "hello", "protodump", "x y z", "ünï ✓", "line"}
			nd.payload = []byte(words[r.Intn(len(words))])
			if r.Chance(1, 4) {
				nd.payload = r.Bytes(r.Intn(20))
			}
			b = refwire.AppendLen(refwire.AppendKey(b, num, 2), nd.payload)
		}
		nodes = append(nodes, nd)
	}
	return b, nodes
}

// genBushy builds a message with two nested-message fields (distinct numbers) and a scalar or string per level.
func genBushy(r *monitor.Rand, depth int) (b []byte, nodes []*dnode) {
	nums := [][2]int{{1, 2}, {3, 4}, {2, 15}, {16, 1}}[r.Intn(4)]
	for k := 0; k < 2; k++ {
		if depth > 0 {
			nd := &dnode{num: nums[k], wt: 2, isMsg: true}
			nd.payload, nd.children = genBushy(r, depth-1-r.Intn(2))
			b = refwire.AppendLen(refwire.AppendKey(b, nums[k], 2), nd.payload)
			nodes = append(nodes, nd)
		} else {
			nd := &dnode{num: nums[k], wt: 2, payload: []byte([]string{"leaf", "x", ""}[r.Intn(3)])}
			b = refwire.AppendLen(refwire.AppendKey(b, nums[k], 2), nd.payload)
			nodes = append(nodes, nd)
		}
	}
	v := &dnode{num: 7, wt: 0, val: uint64(depth)}
	b = refwire.AppendVarint(refwire.AppendKey(b, 7, 0), v.val)
	nodes = append(nodes, v)
	return b, nodes
}

// genDeepChain builds a message nested depth levels deep: every level holds a varint, optionally a string, and
// the next level.
func genDeepChain(r *monitor.Rand, depth int) (b []byte, nodes []*dnode) {
	v := &dnode{num: 1, wt: 0, val: uint64(depth)}
	b = refwire.AppendVarint(refwire.AppendKey(b, 1, 0), v.val)
	nodes = append(nodes, v)
	if r.Bool() {
		s := &dnode{num: 2, wt: 2, payload: []byte("lvl")}
		b = refwire.AppendLen(refwire.AppendKey(b, 2, 2), s.payload)
		nodes = append(nodes, s)
	}
	if depth > 0 {
		num := []int{3, 4, 15, 16}[r.Intn(4)]
		nd := &dnode{num: num, wt: 2, isMsg: true}
		nd.payload, nd.children = genDeepChain(r, depth-1)
		b = refwire.AppendLen(refwire.AppendKey(b, num, 2), nd.payload)
		nodes = append(nodes, nd)
	}
	return b, nodes
}

func randVarint64(r *monitor.Rand) uint64 {
	switch r.Intn(4) {
	case 0:
		return uint64(r.Intn(200))
	case 1:
		return uint64(int64(-1 - r.Intn(1000)))
	case 2:
		return r.Uint64() >> uint(r.Intn(64))
	}
	return r.Uint64()
}

func pathKey(p []int) string {
	ss := make([]string, len(p))
	for i, t := range p {
		ss[i] = itoa(t)
	}
	return strings.Join(ss, ".")
}

// renderDump is the reference rendering of the documented protodump format.
func renderDump(sb *strings.Builder, b []byte, parent []int, indent int, expand, strs map[string]bool) error {
	fs, err := refwire.Walk(b)
	prefix := strings.Repeat(" ", 2*indent)
	for _, f := range fs {
		path := append(append([]int(nil), parent...), f.Num)
		fmt.Fprintf(sb, "%stag: %d, wire type: %s\n", prefix, f.Num, wtNames[f.WT])
		switch f.WT {
		case 0:
			fmt.Fprintf(sb, "%s  varint: %d\n", prefix, int64(f.Val))
		case 5:
			fmt.Fprintf(sb, "%s  fixed32: %d\n", prefix, uint32(f.Val))
		case 1:
			fmt.Fprintf(sb, "%s  fixed64: %d\n", prefix, f.Val)
		case 2:
			fmt.Fprintf(sb, "%s  length: %d\n", prefix, len(f.Payload))
			if strs[pathKey(path)] {
				fmt.Fprintf(sb, "%s  string: %s\n", prefix, string(f.Payload))
				continue
			}
			fmt.Fprintf(sb, "%s  [", prefix)
			for i, c := range f.Payload {
				if i > 0 {
					sb.WriteByte(',')
				}
				fmt.Fprintf(sb, "0x%02X", c)
			}
			sb.WriteString("]\n")
			if expand[pathKey(path)] {
				if e := renderDump(sb, f.Payload, path, indent+1, expand, strs); e != nil {
					return e
				}
			}
		}
	}
	return err
}

// collectPaths lists the paths of nested-message fields and of other length-delimited fields.
func collectPaths(nodes []*dnode, parent []int, msgs, lds *[][]int) {
	for _, n := range nodes {
		p := append(append([]int(nil), parent...), n.num)
		if n.wt != 2 {
			continue
		}
		if n.isMsg {
			*msgs = append(*msgs, p)
			collectPaths(n.children, p, msgs, lds)
		} else {
			*lds = append(*lds, p)
		}
	}
}

func runDump(cfg *config, res *monitor.Result) {
	bin := os.Getenv("VERIF_PROTODUMP")
	if bin == "" {
		res.Inconc("VERIF_PROTODUMP not set")
		return
	}
	n := 4000
	if cfg.thorough() {
		n = 40000
	}
	dir, err := os.MkdirTemp(filepath.Dir(cfg.out), "dump")
	if err != nil {
		res.Inconc(err.Error())
		return
	}
	defer os.RemoveAll(dir)
	r := monitor.NewRand(cfg.seed, "dump", cfg.shard)
	classes := map[string]int64{}
	var evals int64
	var stdinFile *os.File
	for i := 0; i < n/cfg.nshard; i++ {
		input, nodes := genDumpMsg(r, 2)
		deep := 0
		if i%40 == 7 {
			// a narrow but deep message: nesting levels well beyond what the random trees reach, fully expanded
			deep = []int{8, 9, 10, 12, 16, 24, 40}[r.Intn(7)]
			input, nodes = genDeepChain(r, deep)
		}
		bushy := 0
		if i%40 == 13 {
			// several nested-message siblings per level, 4-7 levels deep, with a random prefix-closed expand set:
			// neighbours at the same depth get different answers from the path matcher
			bushy = 4 + r.Intn(4)
			input, nodes = genBushy(r, bushy)
		}
		var msgPaths, ldPaths [][]int
		collectPaths(nodes, nil, &msgPaths, &ldPaths)
		expand, strs := map[string]bool{}, map[string]bool{}
		// a nested path is only reachable when its parents are expanded; choose a prefix-closed random subset
		for _, p := range msgPaths {
			reach := true
			for k := 1; k < len(p); k++ {
				if !expand[pathKey(p[:k])] {
					reach = false
				}
			}
			if reach && (deep > 0 || r.Chance(2, 3)) {
				expand[pathKey(p)] = true
			}
		}
		for _, p := range ldPaths {
			if r.Chance(1, 2) {
				strs[pathKey(p)] = true
			}
		}
		// a path that matches both a nested message and (same number) a plain field would expand the plain
		// one as well: only keep expand paths whose every occurrence is a nested message
		ambiguous := false
		for _, p := range ldPaths {
			if expand[pathKey(p)] {
				ambiguous = true
			}
		}
		if ambiguous {
			continue
		}
		valid := true
		if i%4 == 3 && len(input) > 0 { // malformed variant
			valid = false
			switch r.Intn(3) {
			case 0:
				input = input[:r.Intn(len(input))]
			case 1:
				input = append(input, 0x0b) // start-group wire type
			default:
				input = append(refwire.AppendKey(input, 7, 2), 0xff, 0xff, 0xff, 0x7f)
			}
			if _, err := refwire.Walk(input); err == nil {
				valid = true
			}
		}
		if len(input) == 0 {
			continue
		}
		args := []string{}
		// spread the paths over several flag occurrences and comma lists
		addPaths := func(flag string, set map[string]bool) {
			var ks []string
			for k := range set {
				ks = append(ks, k)
			}
			sortStrings(ks)
			for len(ks) > 0 {
				k := 1 + r.Intn(len(ks))
				args = append(args, flag, strings.Join(ks[:k], ","))
				ks = ks[k:]
			}
		}
		addPaths("-expand", expand)
		addPaths("-strings", strs)
		channel := []string{"file", "stdin-redirect", "pipe"}[i%3]
		fn := filepath.Join(dir, "in.bin")
		if err := os.WriteFile(fn, input, 0o644); err != nil {
			res.Inconc(err.Error())
			return
		}
		cmd := exec.Command(bin, args...)
		var stdout, stderr bytes.Buffer
		cmd.Stdout, cmd.Stderr = &stdout, &stderr
		switch channel {
		case "file":
			cmd.Args = append(cmd.Args, "-file", fn)
		case "stdin-redirect":
			f, _ := os.Open(fn)
			cmd.Stdin = f
			stdinFile = f
		default:
			cmd.Stdin = bytes.NewReader(input) // os/exec feeds a non-file reader through a pipe
		}
		cfg.progress.Set("dump", channel, strings.Join(args, " "), monitor.Hex(input))
		runErr := cmd.Run()
		if stdinFile != nil {
			stdinFile.Close()
			stdinFile = nil
		}
		evals++
		exit := 0
		if runErr != nil {
			exit = 1
			if ee, ok := runErr.(*exec.ExitError); ok {
				exit = ee.ExitCode()
			}
		}
		wit := map[string]any{"input_hex": monitor.Hex(input), "args": args, "channel": channel, "stderr": clipStr(stderr.String()), "exit": exit}
		cls := fmt.Sprintf("dump/%s/expand%d/strings%d/valid%v", channel, min(len(expand), 2), min(len(strs), 2), valid)
		if deep > 0 {
			cls = fmt.Sprintf("dump/deep-chain/levels%d/valid%v", deep, valid)
		}
		if bushy > 0 {
			cls = fmt.Sprintf("dump/bushy/levels%d/expand%d/valid%v", bushy, min(len(expand), 6), valid)
		}
		classes[cls]++
		if strings.Contains(stderr.String(), "panic:") || strings.Contains(stderr.String(), "goroutine ") {
			res.Violate("C20:dump:crash:"+channel, "protodump crashed: "+clipStr(stderr.String()), wit)
			continue
		}
		if !valid {
			if exit == 0 {
				res.Violate("C20:dump:malformed-accepted:"+channel, "protodump exited with status 0 on malformed input", wit)
			}
			continue
		}
		if exit != 0 {
			res.Violate("C20:dump:valid-rejected:"+channel, fmt.Sprintf("protodump exited with status %d on a valid message: %s", exit, clipStr(stderr.String())), wit)
			continue
		}
		var want strings.Builder
		if err := renderDump(&want, input, nil, 0, expand, strs); err != nil {
			res.Inconc("reference renderer failed on a valid message")
			continue
		}
		if stdout.String() != want.String() {
			wit["stdout"] = clipStr(stdout.String())
			wit["expected"] = clipStr(want.String())
			res.Violate("C20:dump:output-differs:"+channel, "protodump output differs from the reference rendering (field number, wire type, value, order or recursion)", wit)
		}
		if i < 2 && cfg.shard == 0 {
			res.Sample(map[string]any{"family": "protodump", "channel": channel, "args": args, "input_hex": monitor.Hex(input), "stdout": clipStr(stdout.String())})
		}
	}
	res.Eval(evals)
	res.MergeClasses(classes)
}

func clipStr(s string) string {
	if len(s) > 1500 {
		return s[:1500] + "..."
	}
	return s
}

func sortStrings(a []string) {
	for i := 1; i < len(a); i++ {
		for j := i; j > 0 && a[j] < a[j-1]; j-- {
			a[j], a[j-1] = a[j-1], a[j]
		}
	}
}
