package main

import (
	"bytes"
	"errors"
	"fmt"
	"io"
	"math"
	"runtime/metrics"

	"github.com/CrowdStrike/csproto"

	"verifharness/monitor"
	"verifharness/refwire"
)

// ---------------------------------------------------------------------------------------------------
// C03: the decoder is total and bounds-safe on arbitrary bytes.

// expectation is what the reference says about the item at the cursor for a given method.
type expectation struct {
	malformed bool   // truncated / over-declared / unterminated: the call must return an error
	adv       int    // on success the cursor must advance by exactly this
	count     int    // on success, number of elements of a packed result (-1: not applicable)
	val       uint64 // on success, expected value (when hasVal)
	hasVal    bool
	// truncAdv: the item's length prefix is a 10-byte varint with bits beyond 64. Readers differ: protowire refuses it,
	// a reader that drops the excess bits (csproto's DecodeVarint does, also for scalars) sees the length truncAdv-prefix.
	// Both are within the property: an error, or an item whose extent follows from the reader's own value. 0 = not applicable.
	truncAdv int
}

// varintExtent returns the length of the varint at the start of b: the index of the first byte
// without continuation bit within the first ten bytes.
func varintExtent(b []byte) (int, bool) {
	for i := 0; i < len(b) && i < 10; i++ {
		if b[i] < 0x80 {
			return i + 1, true
		}
	}
	return 0, false
}

// varintValue decodes with silent truncation to 64 bits (what a 64-bit reader that accepts the
// encoding returns).
func varintValue(b []byte, n int) uint64 {
	var v uint64
	for i := 0; i < n; i++ {
		v |= uint64(b[i]&0x7f) << (7 * uint(i))
	}
	return v
}

func expVarint(conv func(uint64) (uint64, bool)) func(b []byte) expectation {
	return func(b []byte) expectation {
		n, ok := varintExtent(b)
		if !ok {
			return expectation{malformed: true}
		}
		e := expectation{adv: n, count: -1}
		if conv != nil {
			// value is only asserted for encodings without overflow bits
			if _, _, err := refwire.ConsumeVarint(b); err == nil {
				if v, ok := conv(varintValue(b, n)); ok {
					e.val, e.hasVal = v, true
				}
			}
		}
		return e
	}
}

func expFixed(width int) func(b []byte) expectation {
	return func(b []byte) expectation {
		if len(b) < width {
			return expectation{malformed: true}
		}
		var v uint64
		for i := 0; i < width; i++ {
			v |= uint64(b[i]) << (8 * uint(i))
		}
		return expectation{adv: width, count: -1, val: v, hasVal: true}
	}
}

func expLen(b []byte) expectation {
	n, ok := varintExtent(b)
	if !ok {
		return expectation{malformed: true}
	}
	l, _, err := refwire.ConsumeVarint(b)
	if err != nil {
		// overflowing length: refused by the reference; a reader that truncates to 64 bits gets varintValue(b, n), which
		// may well fit (the excess bits are simply dropped: 80..80 04 reads as 0)
		e := expectation{malformed: true}
		if t := varintValue(b, n); t <= uint64(len(b)-n) {
			e.truncAdv = n + int(t)
		}
		return e
	}
	if l > uint64(len(b)-n) {
		return expectation{malformed: true}
	}
	return expectation{adv: n + int(l), count: -1}
}

// expPacked: elem 0 = varint elements, 4/8 = fixed width
func expPacked(elem int) func(b []byte) expectation {
	return func(b []byte) expectation {
		e := expLen(b)
		if e.malformed {
			return e
		}
		n, _ := varintExtent(b)
		run := b[n:e.adv]
		if elem == 0 {
			cnt := 0
			for len(run) > 0 {
				m, ok := varintExtent(run)
				if !ok {
					return expectation{malformed: true}
				}
				run = run[m:]
				cnt++
			}
			e.count = cnt
		} else {
			if len(run)%elem != 0 {
				return expectation{malformed: true}
			}
			e.count = len(run) / elem
		}
		return e
	}
}

type callArgs struct {
	tag    int
	wt     csproto.WireType
	nested *stubNested
}

type stubNested struct {
	calls int
	got   int
	fail  error
}

func (s *stubNested) Unmarshal(p []byte) error {
	s.calls++
	s.got = len(p)
	return s.fail
}

type callResult struct {
	err    error
	val    uint64
	hasVal bool
	count  int // -1 n/a
	capB   int // capacity in bytes of a returned slice
}

type method struct {
	name string
	call func(d *csproto.Decoder, a *callArgs) callResult
	exp  func(b []byte) expectation
}

func u64(v uint64, err error) callResult {
	return callResult{err: err, val: v, hasVal: true, count: -1}
}

func sl[T any](xs []T, err error, sz int) callResult {
	return callResult{err: err, count: len(xs), capB: cap(xs) * sz}
}

var methods = []method{
	{"DecodeTag", func(d *csproto.Decoder, a *callArgs) callResult {
		t, wt, err := d.DecodeTag()
		return callResult{err: err, val: uint64(t)<<3 | uint64(wt), hasVal: true, count: -1}
	}, expVarint(func(v uint64) (uint64, bool) { return v, true })},
	{"DecodeBool", func(d *csproto.Decoder, a *callArgs) callResult {
		b, err := d.DecodeBool()
		if b {
			return u64(1, err)
		}
		return u64(0, err)
	}, expVarint(func(v uint64) (uint64, bool) {
		if v != 0 {
			return 1, true
		}
		return 0, true
	})},
	{"DecodeUInt32", func(d *csproto.Decoder, a *callArgs) callResult {
		v, err := d.DecodeUInt32()
		return u64(uint64(v), err)
	}, expVarint(func(v uint64) (uint64, bool) { return v, v <= math.MaxUint32 })},
	{"DecodeUInt64", func(d *csproto.Decoder, a *callArgs) callResult {
		return u64(d.DecodeUInt64())
	}, expVarint(func(v uint64) (uint64, bool) { return v, true })},
	{"DecodeInt32", func(d *csproto.Decoder, a *callArgs) callResult {
		v, err := d.DecodeInt32()
		return u64(uint64(int64(v)), err)
	}, expVarint(func(v uint64) (uint64, bool) {
		return v, int64(v) >= math.MinInt32 && int64(v) <= math.MaxInt32
	})},
	{"DecodeInt64", func(d *csproto.Decoder, a *callArgs) callResult {
		v, err := d.DecodeInt64()
		return u64(uint64(v), err)
	}, expVarint(func(v uint64) (uint64, bool) { return v, true })},
	{"DecodeSInt32", func(d *csproto.Decoder, a *callArgs) callResult {
		v, err := d.DecodeSInt32()
		return u64(uint64(uint32(v)), err)
	}, expVarint(func(v uint64) (uint64, bool) { return uint64(uint32(refwire.UnZigZag32(v))), v <= math.MaxUint32 })},
	{"DecodeSInt64", func(d *csproto.Decoder, a *callArgs) callResult {
		v, err := d.DecodeSInt64()
		return u64(uint64(v), err)
	}, expVarint(func(v uint64) (uint64, bool) { return uint64(refwire.UnZigZag64(v)), true })},
	{"DecodeFixed32", func(d *csproto.Decoder, a *callArgs) callResult {
		v, err := d.DecodeFixed32()
		return u64(uint64(v), err)
	}, expFixed(4)},
	{"DecodeFixed64", func(d *csproto.Decoder, a *callArgs) callResult {
		return u64(d.DecodeFixed64())
	}, expFixed(8)},
	{"DecodeFloat32", func(d *csproto.Decoder, a *callArgs) callResult {
		v, err := d.DecodeFloat32()
		return u64(uint64(math.Float32bits(v)), err)
	}, expFixed(4)},
	{"DecodeFloat64", func(d *csproto.Decoder, a *callArgs) callResult {
		v, err := d.DecodeFloat64()
		return u64(math.Float64bits(v), err)
	}, expFixed(8)},
	{"DecodeString", func(d *csproto.Decoder, a *callArgs) callResult {
		s, err := d.DecodeString()
		return callResult{err: err, count: len(s), capB: len(s)}
	}, expLen},
	{"DecodeBytes", func(d *csproto.Decoder, a *callArgs) callResult {
		s, err := d.DecodeBytes()
		return callResult{err: err, count: len(s), capB: 0}
	}, expLen},
	{"DecodeNested", func(d *csproto.Decoder, a *callArgs) callResult {
		err := d.DecodeNested(a.nested)
		return callResult{err: err, count: -1}
	}, expLen},
	{"DecodePackedBool", func(d *csproto.Decoder, a *callArgs) callResult { x, e := d.DecodePackedBool(); return sl(x, e, 1) }, expPacked(0)},
	{"DecodePackedInt32", func(d *csproto.Decoder, a *callArgs) callResult { x, e := d.DecodePackedInt32(); return sl(x, e, 4) }, expPacked(0)},
	{"DecodePackedInt64", func(d *csproto.Decoder, a *callArgs) callResult { x, e := d.DecodePackedInt64(); return sl(x, e, 8) }, expPacked(0)},
	{"DecodePackedUint32", func(d *csproto.Decoder, a *callArgs) callResult { x, e := d.DecodePackedUint32(); return sl(x, e, 4) }, expPacked(0)},
	{"DecodePackedUint64", func(d *csproto.Decoder, a *callArgs) callResult { x, e := d.DecodePackedUint64(); return sl(x, e, 8) }, expPacked(0)},
	{"DecodePackedSint32", func(d *csproto.Decoder, a *callArgs) callResult { x, e := d.DecodePackedSint32(); return sl(x, e, 4) }, expPacked(0)},
	{"DecodePackedSint64", func(d *csproto.Decoder, a *callArgs) callResult { x, e := d.DecodePackedSint64(); return sl(x, e, 8) }, expPacked(0)},
	{"DecodePackedFixed32", func(d *csproto.Decoder, a *callArgs) callResult { x, e := d.DecodePackedFixed32(); return sl(x, e, 4) }, expPacked(4)},
	{"DecodePackedFixed64", func(d *csproto.Decoder, a *callArgs) callResult { x, e := d.DecodePackedFixed64(); return sl(x, e, 8) }, expPacked(8)},
	{"DecodePackedFloat32", func(d *csproto.Decoder, a *callArgs) callResult { x, e := d.DecodePackedFloat32(); return sl(x, e, 4) }, expPacked(4)},
	{"DecodePackedFloat64", func(d *csproto.Decoder, a *callArgs) callResult { x, e := d.DecodePackedFloat64(); return sl(x, e, 8) }, expPacked(8)},
}

// skip variants are appended as methods with fixed (tag, wire type) arguments
func init() {
	for _, wt := range []int{0, 1, 2, 5, 3, 4, 6, 7} {
		wt := wt
		for _, tag := range []int{1, 16, 1 << 28} {
			tag := tag
			methods = append(methods, method{
				name: fmt.Sprintf("Skip(%d,wt%d)", tag, wt),
				call: func(d *csproto.Decoder, a *callArgs) callResult {
					raw, err := d.Skip(tag, csproto.WireType(wt))
					return callResult{err: err, count: len(raw)}
				},
				exp: func(b []byte) expectation {
					switch wt {
					case 0:
						return expVarint(nil)(b)
					case 1:
						e := expFixed(8)(b)
						e.hasVal = false
						return e
					case 5:
						e := expFixed(4)(b)
						e.hasVal = false
						return e
					case 2:
						return expLen(b)
					}
					return expectation{malformed: true} // unsupported wire type: must be an error
				},
			})
		}
	}
}

type totalWorker struct {
	cfg     *config
	res     *monitor.Result
	classes map[string]int64
	evals   int64
	frame   []byte // canary-framed backing array
	placed  int    // number of inputs placed so far
	sample  [1]metrics.Sample
}

func (w *totalWorker) flush() {
	w.res.Eval(w.evals)
	w.evals = 0
	w.res.MergeClasses(w.classes)
	w.classes = map[string]int64{}
}

// place copies in into a canary framed array and returns a capacity-limited sub-slice.
func (w *totalWorker) place(in []byte) []byte {
	n := len(in)
	if len(w.frame) < n+2*canary {
		w.frame = make([]byte, n+2*canary+4096)
	}
	for i := 0; i < canary; i++ {
		w.frame[i] = 0xC3
		w.frame[canary+n+i] = 0xC3
	}
	copy(w.frame[canary:], in)
	w.placed++
	if w.placed%2 == 0 {
		// every other input is a slice WITH spare capacity (a sub-slice of a larger buffer, as the payload of a nested
		// field or a pooled buffer is): what lies behind len() is not input either, and reading it does not panic
		w.classes["input-with-spare-capacity"]++
		return w.frame[canary : canary+n : canary+n+canary]
	}
	return w.frame[canary : canary+n : canary+n]
}

func (w *totalWorker) canaries(n int) bool {
	for i := 0; i < canary; i++ {
		if w.frame[i] != 0xC3 || w.frame[canary+n+i] != 0xC3 {
			return false
		}
	}
	return true
}

func (w *totalWorker) allocs() uint64 {
	w.sample[0].Name = "/gc/heap/allocs:bytes"
	metrics.Read(w.sample[:])
	return w.sample[0].Value.Uint64()
}

func errClass(err error) string {
	switch {
	case err == nil:
		return "ok"
	case errors.Is(err, io.ErrUnexpectedEOF):
		return "eof"
	case errors.Is(err, csproto.ErrValueOverflow):
		return "overflow"
	case errors.Is(err, csproto.ErrLenOverflow):
		return "lenoverflow"
	case errors.Is(err, csproto.ErrInvalidPackedData):
		return "badpacked"
	case errors.Is(err, csproto.ErrInvalidFieldTag):
		return "badtag"
	case errors.Is(err, csproto.ErrInvalidVarintData):
		return "badvarint"
	}
	var se *csproto.DecoderSkipError
	if errors.As(err, &se) {
		return "skipmismatch"
	}
	return "othererr"
}

func inputClass(b []byte, off int) string {
	rest := len(b) - off
	switch {
	case rest == 0:
		return "at-end"
	case rest < 4:
		return "rest<4"
	case rest < 8:
		return "rest<8"
	case rest < 64:
		return "rest<64"
	}
	return "rest>=64"
}

// one performs one decoder call at offset off of input in (already placed) and judges it.
// measure: also judge heap allocation of the call.
func (w *totalWorker) one(m *method, in, backup []byte, d *csproto.Decoder, fast bool, measure bool, family string) {
	off := d.Offset()
	if off < 0 || off > len(in) {
		return // an earlier call left the cursor outside the input (reported there); nothing more to judge with this decoder
	}
	w.evals++
	args := &callArgs{nested: &stubNested{}}
	var before uint64
	if measure {
		before = w.allocs()
	}
	var cr callResult
	pi := monitor.Try(func() { cr = m.call(d, args) })
	var alloc uint64
	if measure {
		alloc = w.allocs() - before
	}
	viol := func(failure, what string) {
		sig := fmt.Sprintf("C03:%s:%s:%s", m.name, failure, modeName(fast))
		w.res.Violate(sig, what, map[string]any{"input": monitor.Hex(backup), "offset": off, "method": m.name, "mode": modeName(fast), "family": family})
	}
	if pi != nil {
		viol("panic", fmt.Sprintf("%s panicked at offset %d of a %d-byte input: %s", m.name, off, len(in), pi.Value))
		// the decoder may be in any state now; check the cursor anyway
	}
	noff := d.Offset()
	if noff < 0 || noff > len(in) {
		viol("cursor-out-of-range", fmt.Sprintf("cursor %d outside [0,%d] after %s", noff, len(in), m.name))
	}
	if !w.canaries(len(in)) {
		viol("wrote-outside-input", "bytes outside the input buffer were modified")
	}
	if !bytes.Equal(in, backup) {
		viol("input-modified", "the input buffer was modified")
		copy(in, backup)
	}
	if pi != nil {
		return
	}
	rest := in[off:]
	if len(rest) > 0 {
		w.classes[m.name+"/"+errClass(cr.err)+"/"+modeName(fast)+"/"+inputClass(in, off)]++
	}
	if off >= len(in) {
		// at end of buffer every read must fail
		if cr.err == nil {
			viol("success-at-end", fmt.Sprintf("%s succeeded with the cursor at the end of the input", m.name))
		}
		return
	}
	exp := m.exp(rest)
	if cr.err == nil {
		switch {
		case exp.malformed && exp.truncAdv > 0 && noff-off == exp.truncAdv:
			// accepted with the truncated length, cursor exactly behind that item: within the property (see expectation.truncAdv)
			w.classes[m.name+"/overflowing-length-prefix-read-truncated/"+modeName(fast)]++
		case exp.malformed:
			viol("accepted-malformed", fmt.Sprintf("%s succeeded although the item at offset %d is truncated, unterminated or declares more than the remaining input", m.name, off))
		case noff-off != exp.adv:
			viol("advance", fmt.Sprintf("%s advanced by %d, the item's encoded length is %d", m.name, noff-off, exp.adv))
		default:
			if exp.hasVal && cr.hasVal && exp.val != cr.val {
				viol("value", fmt.Sprintf("%s returned %#x, reference %#x", m.name, cr.val, exp.val))
			}
			if exp.count >= 0 && cr.count >= 0 && exp.count != cr.count && m.name[:5] != "Skip(" && m.name != "DecodeString" && m.name != "DecodeBytes" {
				viol("count", fmt.Sprintf("%s returned %d elements, reference %d", m.name, cr.count, exp.count))
			}
		}
		if m.name == "DecodeNested" && args.nested.calls != 1 {
			viol("nested-calls", fmt.Sprintf("nested decoder invoked %d times on success", args.nested.calls))
		}
	} else if m.name == "DecodeNested" && exp.malformed && args.nested.calls != 0 {
		viol("nested-invoked-on-malformed", "nested decoder was invoked although the declared length exceeds the input")
	}
	if measure {
		// linear in the input with a generous constant: a packed list of 1-byte varints becomes 8-byte elements, and
		// append-growth of the result slice allocates a multiple of the final size in total (measured: 89 bytes per
		// input byte for 4 KiB of packed uint64). The defect class in view is gigabytes for a handful of bytes.
		// The runtime accounts small allocations to /gc/heap/allocs:bytes in bulk, when a span is exhausted: one call can
		// be charged a whole span (tens of KiB) of earlier small allocations. Hence the constant of 256 KiB and the
		// minimum over five measurements (a false alarm of 65 KiB against the earlier 64 KiB constant was seen once).
		limit := uint64(256*len(in) + 256<<10)
		if alloc > limit {
			// re-measure four times on a fresh decoder; take the minimum
			minAlloc := alloc
			for i := 0; i < 4; i++ {
				d2 := csproto.NewDecoder(in)
				if fast {
					d2.SetMode(csproto.DecoderModeFast)
				}
				_, _ = d2.Seek(int64(off), io.SeekStart)
				b0 := w.allocs()
				_ = monitor.Try(func() { _ = m.call(d2, &callArgs{nested: &stubNested{}}) })
				if a := w.allocs() - b0; a < minAlloc {
					minAlloc = a
				}
			}
			if minAlloc > limit {
				viol("allocation", fmt.Sprintf("%s allocated %d bytes for a %d-byte input (limit %d)", m.name, minAlloc, len(in), limit))
			}
		}
	}
}

var alphabet = []byte{0x00, 0x01, 0x02, 0x04, 0x05, 0x07, 0x08, 0x0A, 0x0D, 0x7F, 0x80, 0x81, 0xFF}

func runTotal(cfg *config, res *monitor.Result) {
	w := &totalWorker{cfg: cfg, res: res, classes: map[string]int64{}}
	// (a) exhaustive strings over the alphabet
	maxLen := 5
	if cfg.thorough() {
		maxLen = 6
	}
	idx := 0
	for l := 0; l <= maxLen; l++ {
		s := make([]byte, l)
		ctr := make([]int, l)
		for {
			for i := range s {
				s[i] = alphabet[ctr[i]]
			}
			idx++
			if cfg.mine(idx) {
				w.exhaustOne(s)
			}
			// next
			i := l - 1
			for ; i >= 0; i-- {
				ctr[i]++
				if ctr[i] < len(alphabet) {
					break
				}
				ctr[i] = 0
			}
			if i < 0 {
				break
			}
		}
		w.flush()
	}
	res.Extra("exhaustive_alphabet_size", int64(len(alphabet)))
	res.Extra("exhaustive_max_len", int64(maxLen))
	if cfg.shard == 0 {
		res.Sample(map[string]any{"family": "exhaustive", "input": "80ff01", "start_offsets": "0..3", "methods": len(methods), "modes": "safe,fast"})
	}
	// (b) seeded call sequences with a shadow cursor
	w.sequences()
	w.flush()
	// (c) hostile long inputs
	w.hostile()
	w.flush()
}

func (w *totalWorker) exhaustOne(s []byte) {
	w.exhaustPlaced(s)
	w.exhaustPlaced(s) // the other capacity mode
}

func (w *totalWorker) exhaustPlaced(s []byte) {
	in := w.place(s)
	backup := append([]byte(nil), s...)
	w.cfg.progress.Set("exhaust", monitor.Hex(s))
	for off := 0; off <= len(s); off++ {
		for mi := range methods {
			m := &methods[mi]
			for _, fast := range []bool{false, true} {
				d := csproto.NewDecoder(in)
				if fast {
					d.SetMode(csproto.DecoderModeFast)
				}
				if off > 0 {
					if _, err := d.Seek(int64(off), io.SeekStart); err != nil {
						w.res.Violate("C03:Seek:valid-rejected:"+modeName(fast), "Seek to a valid offset failed: "+err.Error(), map[string]any{"input": monitor.Hex(s), "offset": off})
						continue
					}
				}
				w.one(m, in, backup, d, fast, false, "exhaustive")
			}
		}
	}
}

// sequences drives random call sequences over random / structured inputs.
func (w *totalWorker) sequences() {
	n := 30000
	if w.cfg.thorough() {
		n = 1500000
	}
	r := monitor.NewRand(w.cfg.seed, "c03-seq", w.cfg.shard)
	for i := 0; i < n/w.cfg.nshard; i++ {
		var raw []byte
		switch r.Intn(4) {
		case 0:
			raw = r.Bytes(r.Intn(40))
		case 1:
			raw = genFieldSeq(r, 6, 2, false)
			if len(raw) > 0 && r.Bool() {
				raw = raw[:r.Intn(len(raw)+1)]
			}
		case 2:
			raw = genFieldSeq(r, 6, 2, false)
			for k := 0; k < 1+r.Intn(3) && len(raw) > 0; k++ {
				raw[r.Intn(len(raw))] = alphabet[r.Intn(len(alphabet))]
			}
		default:
			raw = make([]byte, r.Intn(24))
			for k := range raw {
				raw[k] = alphabet[r.Intn(len(alphabet))]
			}
		}
		in := w.place(raw)
		backup := append([]byte(nil), raw...)
		d := csproto.NewDecoder(in)
		fast := false
		steps := 1 + r.Intn(8)
		var trace []string
		for s := 0; s < steps; s++ {
			switch c := r.Intn(12); c {
			case 0: // Seek
				whence := r.Intn(4) // 3 = invalid
				var offs int64
				switch r.Intn(5) {
				case 0:
					offs = int64(r.Intn(len(in)+3)) - 1
				case 1:
					offs = -int64(r.Intn(len(in) + 3))
				case 2:
					offs = math.MaxInt64 - int64(r.Intn(3))
				case 3:
					offs = math.MinInt64 + int64(r.Intn(3))
				default:
					offs = int64(r.Intn(5)) - 2
				}
				trace = append(trace, fmt.Sprintf("Seek(%d,%d)", offs, whence))
				w.cfg.progress.Set("seq", monitor.Hex(raw), fmt.Sprint(trace))
				w.seek(d, in, backup, offs, whence, fast)
			case 1:
				trace = append(trace, "Reset")
				d.Reset()
				if d.Offset() != 0 {
					w.res.Violate("C03:Reset:cursor", "Reset did not move the cursor to 0", map[string]any{"input": monitor.Hex(raw)})
				}
			case 2:
				fast = !fast
				trace = append(trace, "SetMode("+modeName(fast)+")")
				if fast {
					d.SetMode(csproto.DecoderModeFast)
				} else {
					d.SetMode(csproto.DecoderModeSafe)
				}
			case 3:
				trace = append(trace, "More")
				if d.More() != (d.Offset() < len(in)) {
					w.res.Violate("C03:More:value", "More() disagrees with the cursor position", map[string]any{"input": monitor.Hex(raw), "trace": trace})
				}
			default:
				m := &methods[r.Intn(len(methods))]
				trace = append(trace, m.name)
				w.cfg.progress.Set("seq", monitor.Hex(raw), fmt.Sprint(trace))
				w.one(m, in, backup, d, fast, false, "sequence "+fmt.Sprint(trace))
			}
		}
		if i == 0 && w.cfg.shard == 0 {
			w.res.Sample(map[string]any{"family": "call sequence", "input": monitor.Hex(raw), "calls": trace})
		}
	}
}

func (w *totalWorker) seek(d *csproto.Decoder, in, backup []byte, offs int64, whence int, fast bool) {
	w.evals++
	before := d.Offset()
	var got int64
	var err error
	pi := monitor.Try(func() { got, err = d.Seek(offs, whence) })
	viol := func(failure, what string) {
		w.res.Violate("C03:Seek:"+failure+":"+modeName(fast), what, map[string]any{"input": monitor.Hex(backup), "cursor": before, "offset": offs, "whence": whence})
	}
	if pi != nil {
		viol("panic", "Seek panicked: "+pi.Value)
		return
	}
	after := d.Offset()
	if after < 0 || after > len(in) {
		viol("cursor-out-of-range", fmt.Sprintf("cursor %d outside [0,%d] after Seek", after, len(in)))
		return
	}
	w.classes["Seek/"+errClass(err)+"/whence"+itoa(whence)]++
	// target in exact arithmetic
	var base int64
	valid := true
	switch whence {
	case io.SeekStart:
	case io.SeekCurrent:
		base = int64(before)
	case io.SeekEnd:
		base = int64(len(in))
	default:
		valid = false
	}
	inRange := false
	var target int64
	if valid {
		// overflow-safe: offs within [-base, len-base]
		if offs >= -base && offs <= int64(len(in))-base {
			inRange = true
			target = base + offs
		}
	}
	switch {
	case err == nil && !inRange:
		viol("accepted-invalid", "Seek accepted an out-of-range target or invalid whence")
	case err == nil && (int64(after) != target || got != target):
		viol("position", fmt.Sprintf("Seek moved to %d (returned %d), target %d", after, got, target))
	case err != nil && after != before:
		viol("moved-on-error", "Seek failed but moved the cursor")
	case err != nil && inRange:
		viol("valid-rejected", "Seek rejected a valid target: "+err.Error())
	}
}

// hostile feeds long, deliberately malformed inputs; allocation is measured here.
func (w *totalWorker) hostile() {
	r := monitor.NewRand(w.cfg.seed, "c03-hostile", w.cfg.shard)
	inflated := []uint64{1<<31 - 1, 1 << 31, 1 << 32, 1<<32 + 5, 1 << 40, 1 << 62, 1 << 63, math.MaxUint64, 1 << 20, 1 << 24, 1 << 28, 1 << 30, 100000, 70000}
	n := 400
	if w.cfg.thorough() {
		n = 6000
	}
	idx := 0
	for i := 0; i < n; i++ {
		for _, decl := range inflated {
			idx++
			if !w.cfg.mine(idx) {
				continue
			}
			// length prefix declaring `decl` bytes followed by `have` bytes
			have := []int{0, 1, 3, 4, 7, 8, 9, 64, 4096}[r.Intn(9)]
			if uint64(have) >= decl {
				have = int(decl) - 1
			}
			raw := refwire.AppendVarint(nil, decl)
			if r.Chance(1, 4) {
				raw = append(raw, r.Bytes(have)...)
			} else {
				raw = append(raw, make([]byte, have)...)
			}
			in := w.place(raw)
			backup := append([]byte(nil), raw...)
			for mi := range methods {
				m := &methods[mi]
				for _, fast := range []bool{false, true} {
					d := csproto.NewDecoder(in)
					if fast {
						d.SetMode(csproto.DecoderModeFast)
					}
					w.cfg.progress.Set("hostile", m.name, modeName(fast), monitor.Hex(clip(raw)), itoa(len(raw)))
					w.one(m, in, backup, d, fast, true, fmt.Sprintf("inflated length %d, %d bytes present", decl, have))
				}
			}
		}
	}
	if w.cfg.shard == 0 {
		w.res.Sample(map[string]any{"family": "inflated length prefix", "declared": "2^31", "present_bytes": 3, "methods": len(methods)})
	}
	// over-long and 10-byte varints, truncated fixed-width values, truncated packed runs
	var extra [][]byte
	for l := 1; l <= 12; l++ {
		b := bytes.Repeat([]byte{0x80}, l-1)
		extra = append(extra, append(append([]byte(nil), b...), 0x00), append(append([]byte(nil), b...), 0x7f), append(append([]byte(nil), b...), 0x01), b)
		f := bytes.Repeat([]byte{0xff}, l-1)
		extra = append(extra, append(append([]byte(nil), f...), 0x01), append(append([]byte(nil), f...), 0x7f), f)
	}
	for l := 0; l < 20; l++ {
		// packed run of length l with fixed-width data of every residue
		extra = append(extra, append(refwire.AppendVarint(nil, uint64(l)), bytes.Repeat([]byte{0x01}, l)...))
		extra = append(extra, append(refwire.AppendVarint(nil, uint64(l)), bytes.Repeat([]byte{0x81}, l)...))
		if l > 0 {
			extra = append(extra, append(refwire.AppendVarint(nil, uint64(l)), bytes.Repeat([]byte{0x01}, l-1)...))
		}
		extra = append(extra, append(refwire.AppendVarint(nil, uint64(l)), bytes.Repeat([]byte{0x01}, l+9)...))
	}
	for ei, raw := range extra {
		if !w.cfg.mine(ei) {
			continue
		}
		in := w.place(raw)
		backup := append([]byte(nil), raw...)
		for off := 0; off <= len(raw) && off < 3; off++ {
			for mi := range methods {
				m := &methods[mi]
				for _, fast := range []bool{false, true} {
					d := csproto.NewDecoder(in)
					if fast {
						d.SetMode(csproto.DecoderModeFast)
					}
					_, _ = d.Seek(int64(off), io.SeekStart)
					w.cfg.progress.Set("hostile2", m.name, modeName(fast), monitor.Hex(raw))
					w.one(m, in, backup, d, fast, true, "varint/packed edge")
				}
			}
		}
	}
}
