package main

import (
	"bytes"
	"fmt"
	"sort"
	"strings"

	"github.com/CrowdStrike/csproto"

	"verifharness/monitor"
	"verifharness/refwire"
)

// genFieldSeq builds a well-formed sequence of fields with the reference codec.
func genFieldSeq(r *monitor.Rand, maxFields, depth int, bigPayloads bool) []byte {
	var b []byte
	n := 1 + r.Intn(maxFields)
	for i := 0; i < n; i++ {
		var num int
		switch r.Intn(6) {
		case 0:
			num = fieldNumbers[r.Intn(len(fieldNumbers))]
		case 1:
			num = 1 + r.Intn(refwire.MaxFieldNumber)
		case 2:
			num = 1<<26 + r.Intn(1<<20)
		default:
			num = 1 + r.Intn(40)
		}
		switch wt := wireTypes[r.Intn(4)]; wt {
		case refwire.WTVarint:
			b = refwire.AppendKey(b, num, wt)
			b = refwire.AppendVarint(b, randValue(r, scalarKinds[4]))
			b = maybePad(r, b)
		case refwire.WTFixed64:
			b = refwire.AppendKey(b, num, wt)
			b = refwire.AppendFixed64(b, r.Uint64())
		case refwire.WTFixed32:
			b = refwire.AppendKey(b, num, wt)
			b = refwire.AppendFixed32(b, uint32(r.Uint64()))
		default:
			b = refwire.AppendKey(b, num, wt)
			var p []byte
			switch {
			case depth > 0 && r.Chance(1, 3):
				p = genFieldSeq(r, 5, depth-1, false)
			case bigPayloads && r.Chance(1, 40):
				p = r.Bytes(70000)
			case r.Chance(1, 5):
				p = nil
			default:
				p = r.Bytes(r.Intn(200))
			}
			if r.Chance(1, 6) {
				// a length prefix written with more bytes than necessary (writers that reserve the room for the
				// length and fill it in afterwards emit these); every parser accepts it
				b = refwire.AppendVarint(b, uint64(len(p)))
				b = padVarintTo(b, refwire.SizeVarint(uint64(len(p))), 1+r.Intn(10-refwire.SizeVarint(uint64(len(p)))))
				b = append(b, p...)
			} else {
				b = refwire.AppendLen(b, p)
			}
		}
	}
	return b
}

// maybePad re-encodes, one time in eight, the varint that ends b with redundant continuation bytes.
func maybePad(r *monitor.Rand, b []byte) []byte {
	if !r.Chance(1, 8) {
		return b
	}
	n := 1
	for n < len(b) && n < 10 && b[len(b)-n-1]&0x80 != 0 {
		n++
	}
	if n >= 10 {
		return b
	}
	return padVarintTo(b, n, 1+r.Intn(10-n))
}

// padVarintTo lengthens the varint of n bytes that ends b by extra bytes without changing its value.
func padVarintTo(b []byte, n, extra int) []byte {
	if extra <= 0 || n+extra > 10 {
		return b
	}
	b[len(b)-1] |= 0x80
	for i := 1; i < extra; i++ {
		b = append(b, 0x80)
	}
	return append(b, 0x00)
}

// runSkip: for well-formed field sequences, DecodeTag+Skip must return each field's complete raw
// encoding and the concatenation must reproduce the input (C02).
func runSkip(cfg *config, res *monitor.Result) {
	n := 5000
	if cfg.thorough() {
		n = 500000
	}
	classes := map[string]int64{}
	var evals int64
	r := monitor.NewRand(cfg.seed, "skip", cfg.shard)
	for i := 0; i < n/cfg.nshard; i++ {
		in := genFieldSeq(r, 40, 3, true)
		fields, err := refwire.Walk(in)
		if err != nil {
			res.Inconc("reference walker rejected a generated sequence: " + err.Error())
			continue
		}
		for _, fast := range []bool{false, true} {
			evals++
			if v := skipOne(in, fields, fast); v != nil {
				sig := fmt.Sprintf("C02:skip:%s:%s:%s", v.failure, v.wtName, numClass(v.num))
				res.Violate(sig, v.what, map[string]any{"input": monitor.Hex(in), "mode": modeName(fast), "field_index": v.idx, "num": v.num})
			}
			if len(fields) >= 3 {
				wts := map[int]bool{}
				kls := map[int]bool{}
				pad := ""
				for _, f := range fields {
					wts[f.WT] = true
					kls[f.KeyLen] = true
					if f.WT == refwire.WTLen && f.End-len(f.Payload)-f.Start-f.KeyLen > refwire.SizeVarint(uint64(len(f.Payload))) {
						pad = "/padded-length"
					}
				}
				if len(wts) >= 2 {
					classes["skip/"+setStr(wts)+"/keys"+setStr(kls)+pad+"/"+modeName(fast)]++
				}
			}
		}
		if i == 0 && cfg.shard == 0 {
			res.Sample(map[string]any{"family": "skip sequence", "fields": len(fields), "input": monitor.Hex(clip(in))})
		}
	}
	res.Eval(evals)
	res.MergeClasses(classes)
}

func setStr(m map[int]bool) string {
	var ks []int
	for k := range m {
		ks = append(ks, k)
	}
	sort.Ints(ks)
	var sb strings.Builder
	for _, k := range ks {
		sb.WriteString(itoa(k))
	}
	return sb.String()
}

type skipViolation struct {
	failure, wtName, what string
	num, idx              int
}

func skipOne(in []byte, fields []refwire.Field, fast bool) (sv *skipViolation) {
	cur := 0
	defer func() {
		if r := recover(); r != nil {
			f := fields[min(cur, len(fields)-1)]
			sv = &skipViolation{failure: "panic", wtName: "wt" + itoa(f.WT), num: f.Num, idx: cur, what: fmt.Sprintf("DecodeTag/Skip panicked on a well-formed sequence: %v", r)}
		}
	}()
	backup := append([]byte(nil), in...)
	d := csproto.NewDecoder(in)
	if fast {
		d.SetMode(csproto.DecoderModeFast)
	}
	var cat []byte
	for i, f := range fields {
		cur = i
		mk := func(failure, what string) *skipViolation {
			return &skipViolation{failure: failure, wtName: "wt" + itoa(f.WT), num: f.Num, idx: i, what: what}
		}
		if !d.More() {
			return mk("more-false", "More() is false before the last field")
		}
		tag, wt, err := d.DecodeTag()
		if err != nil {
			return mk("decode-tag-error", fmt.Sprintf("DecodeTag failed on valid field number %d: %v", f.Num, err))
		}
		if tag != f.Num || int(wt) != f.WT {
			return mk("decode-tag-value", fmt.Sprintf("DecodeTag returned (%d,%d), reference says (%d,%d)", tag, wt, f.Num, f.WT))
		}
		if d.Offset() != f.Start+f.KeyLen {
			return mk("tag-consumed", fmt.Sprintf("cursor %d after key, reference %d", d.Offset(), f.Start+f.KeyLen))
		}
		raw, err := d.Skip(tag, wt)
		if err != nil {
			return mk("skip-error", fmt.Sprintf("Skip failed on a well-formed field: %v", err))
		}
		if !bytes.Equal(raw, in[f.Start:f.End]) {
			return mk("skip-bytes", fmt.Sprintf("Skip returned %x, the field's encoding is %x", clip(raw), clip(in[f.Start:f.End])))
		}
		if d.Offset() != f.End {
			return mk("skip-cursor", fmt.Sprintf("cursor %d after Skip, next field starts at %d", d.Offset(), f.End))
		}
		cat = append(cat, raw...)
	}
	f := fields[len(fields)-1]
	if d.More() {
		return &skipViolation{failure: "more-true", wtName: "wt" + itoa(f.WT), num: f.Num, idx: len(fields), what: "More() is true after the last field"}
	}
	if !bytes.Equal(cat, backup) {
		return &skipViolation{failure: "concat", wtName: "any", num: f.Num, idx: len(fields), what: "concatenated skipped fields do not reproduce the input"}
	}
	if !bytes.Equal(in, backup) {
		return &skipViolation{failure: "input-modified", wtName: "any", num: f.Num, idx: len(fields), what: "input was modified"}
	}
	// indexed access with the same decoder (which has read other keys before): position the cursor behind a
	// field's key with Seek and skip it, in an order unrelated to the order of the fields
	for k := 0; k < len(fields) && k < 12; k++ {
		i := (k*7 + len(in)) % len(fields)
		f := fields[i]
		cur = i
		if _, err := d.Seek(int64(f.Start+f.KeyLen), 0); err != nil {
			return &skipViolation{failure: "seek-error", wtName: "wt" + itoa(f.WT), num: f.Num, idx: i, what: "Seek to a valid offset failed: " + err.Error()}
		}
		raw, err := d.Skip(f.Num, csproto.WireType(f.WT))
		switch {
		case err != nil:
			return &skipViolation{failure: "indexed-skip-error", wtName: "wt" + itoa(f.WT), num: f.Num, idx: i, what: fmt.Sprintf("Skip after Seek to the payload of a well-formed field failed: %v", err)}
		case !bytes.Equal(raw, in[f.Start:f.End]):
			return &skipViolation{failure: "indexed-skip-bytes", wtName: "wt" + itoa(f.WT), num: f.Num, idx: i, what: fmt.Sprintf("Skip after Seek returned %x, the field's encoding is %x", clip(raw), clip(in[f.Start:f.End]))}
		case d.Offset() != f.End:
			return &skipViolation{failure: "indexed-skip-cursor", wtName: "wt" + itoa(f.WT), num: f.Num, idx: i, what: fmt.Sprintf("cursor %d after Skip, next field starts at %d", d.Offset(), f.End)}
		}
	}
	return nil
}
