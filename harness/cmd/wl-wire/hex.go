package main

import (
	"bytes"
	"fmt"
	"strings"

	"github.com/CrowdStrike/csproto/prototest"

	"verifharness/monitor"
)

// C20 (first half): ParseAnnotatedHex returns exactly the bytes denoted by the hex digits outside
// comments, for every placement of whitespace, line breaks and ';' comments, and rejects anything else.

var hexSpaces = []string{" ", "\t", "  ", " \t ", " ", " ", "　", "\v", "\f", "\u0085"}
var commentBodies = []string{"", " tag=1, varint", " 08 64 A2", ";;", " ; nested ; comment", " \"foo\" 0xFF", " value=100\t\tdeadbeef", " ünïcödé ✓", " g h i - #", "\t",
	// a carriage return that is not followed by a line feed does not end a line (lines are separated by \n): it belongs to the comment
	" tag=1\r 96 01", "\r", " note\rzz", "\rAB ; x", " \v 0F \f 1E"}
var badChars = func() []string {
	out := []string{"g", "G", "x", "X", "#", "-", ",", ".", "0x", "h", "_", "/", ":", "'", "\"", "é", "z", "[", "\\", "@", "`", "{", "~", "\x7f"}
	// every control character that is not white space (a digit classifier that folds case with c|0x20 maps
	// 0x10..0x19 onto '0'..'9')
	for c := 0; c < 0x20; c++ {
		switch c {
		case '\t', '\n', '\v', '\f', '\r':
		default:
			out = append(out, string(rune(c)))
		}
	}
	return out
}()

type hexRender struct {
	text        string
	comments    int
	inPair      int
	unicodeSp   int
	crlf        int
	emptyLines  int
	upper, lowr int
}

func renderHex(r *monitor.Rand, b []byte) hexRender {
	var sb strings.Builder
	var hr hexRender
	nl := func() {
		if r.Chance(1, 3) {
			sb.WriteString("\r\n")
			hr.crlf++
		} else {
			sb.WriteString("\n")
		}
	}
	space := func(p int) {
		for r.Chance(p, 10) {
			s := hexSpaces[r.Intn(len(hexSpaces))]
			if s[0] > 0x7f {
				hr.unicodeSp++
			}
			sb.WriteString(s)
		}
	}
	comment := func() {
		sb.WriteString(";")
		sb.WriteString(commentBodies[r.Intn(len(commentBodies))])
		hr.comments++
	}
	if r.Chance(1, 4) { // leading comment-only / empty lines
		if r.Bool() {
			space(5)
			comment()
		} else {
			hr.emptyLines++
			space(3)
		}
		nl()
	}
	for i, c := range b {
		space(4)
		hi, lo := c>>4, c&15
		digits := "0123456789abcdef"
		if r.Bool() {
			digits = "0123456789ABCDEF"
			hr.upper++
		} else {
			hr.lowr++
		}
		sb.WriteByte(digits[hi])
		if r.Chance(1, 6) { // whitespace inside a digit pair
			hr.inPair++
			sb.WriteString(hexSpaces[r.Intn(len(hexSpaces))])
		}
		sb.WriteByte(digits[lo])
		space(3)
		if i == len(b)-1 {
			break
		}
		switch r.Intn(8) {
		case 0: // comment to end of line, then break
			comment()
			nl()
		case 1: // plain line break
			nl()
		case 2: // empty / whitespace-only / comment-only line between bytes
			nl()
			if r.Bool() {
				space(5)
				comment()
			} else {
				hr.emptyLines++
				space(4)
			}
			nl()
		}
	}
	if r.Chance(1, 3) {
		comment()
	}
	if r.Chance(1, 3) {
		nl()
	}
	hr.text = sb.String()
	return hr
}

func runHex(cfg *config, res *monitor.Result) {
	n := 300000
	if cfg.thorough() {
		n = 4000000
	}
	classes := map[string]int64{}
	var evals int64
	r := monitor.NewRand(cfg.seed, "hex", cfg.shard)
	type keptHex struct {
		got, want []byte
		text      string
	}
	var kept [8]keptHex
	for i := 0; i < n/cfg.nshard; i++ {
		var b []byte
		switch r.Intn(5) {
		case 0:
			b = r.Bytes(r.Intn(4))
		case 1:
			b = r.Bytes(200 + r.Intn(800))
		default:
			b = r.Bytes(r.Intn(64))
		}
		hr := renderHex(r, b)
		evals++
		var got []byte
		var err error
		pi := monitor.Try(func() { got, err = prototest.ParseAnnotatedHex(hr.text) })
		lc := "len0"
		switch {
		case len(b) >= 200:
			lc = "long"
		case len(b) > 0:
			lc = "short"
		}
		deco := fmt.Sprintf("c%t/p%t/u%t/r%t/e%t", hr.comments > 0, hr.inPair > 0, hr.unicodeSp > 0, hr.crlf > 0, hr.emptyLines > 0)
		if hr.comments > 0 && hr.inPair > 0 {
			classes["hex/"+lc+"/"+deco]++
		}
		switch {
		case pi != nil:
			res.Violate("C20:hex:panic", "ParseAnnotatedHex panicked: "+pi.Value, map[string]any{"text": hr.text})
		case err != nil:
			res.Violate("C20:hex:valid-rejected:"+deco, "ParseAnnotatedHex rejected a valid annotated rendering: "+err.Error(), map[string]any{"text": hr.text, "bytes": monitor.Hex(b)})
		case !bytes.Equal(got, b):
			res.Violate("C20:hex:wrong-bytes:"+deco, fmt.Sprintf("ParseAnnotatedHex returned %x, the digits outside comments denote %x", clip(got), clip(b)), map[string]any{"text": hr.text, "bytes": monitor.Hex(b)})
		default:
			// the caller keeps what it was given: the last 8 results must still hold their bytes after later calls
			kept[i%len(kept)] = keptHex{got: got, want: b, text: hr.text}
			if i%8 == 7 {
				for _, k := range kept {
					evals++
					if k.got != nil && !bytes.Equal(k.got, k.want) {
						res.Violate("C20:hex:result-changed-by-later-call", fmt.Sprintf("a result of ParseAnnotatedHex changed after later calls: now %x, the text denotes %x", clip(k.got), clip(k.want)), map[string]any{"text": k.text, "bytes": monitor.Hex(k.want)})
					}
				}
				classes["hex/kept-results-rechecked"]++
			}
		}
		if i < 2 && cfg.shard == 0 {
			res.Sample(map[string]any{"family": "annotated hex", "text": hr.text, "bytes": monitor.Hex(b)})
		}
		// corruption: one foreign character outside any comment
		if len(b) > 0 && i%2 == 0 {
			evals++
			bad := badChars[r.Intn(len(badChars))]
			text := corruptOutsideComment(r, hr.text, bad)
			if text == "" {
				continue
			}
			var err error
			pi := monitor.Try(func() { _, err = prototest.ParseAnnotatedHex(text) })
			classes["hex-corrupt/"+bad]++
			if pi != nil {
				res.Violate("C20:hex:panic", "ParseAnnotatedHex panicked: "+pi.Value, map[string]any{"text": text})
			} else if err == nil {
				res.Violate("C20:hex:invalid-accepted:"+bad, fmt.Sprintf("ParseAnnotatedHex accepted text with %q outside a comment", bad), map[string]any{"text": text})
			}
			if i == 0 && cfg.shard == 0 {
				res.Sample(map[string]any{"family": "corrupted annotated hex", "text": text, "inserted": bad})
			}
		}
	}
	// very long physical lines (no line break for >64 KiB: single-line dumps, long comments, long blank runs)
	longKinds := []string{"spaced-one-line", "packed-one-line", "long-comment-then-more", "long-blank-run", "long-line-in-the-middle"}
	for k, kind := range longKinds {
		for rep := 0; rep < 2; rep++ {
			if !cfg.mine(k*2 + rep) {
				continue
			}
			b := r.Bytes(300 + r.Intn(200))
			pad := 65536 + r.Intn(3)*4097 - 1 + rep // around and beyond 64 KiB
			var sb strings.Builder
			switch kind {
			case "spaced-one-line":
				b = r.Bytes(pad/3 + 2)
				for _, c := range b {
					fmt.Fprintf(&sb, "%02x ", c)
				}
			case "packed-one-line":
				b = r.Bytes(pad/2 + 2)
				for _, c := range b {
					fmt.Fprintf(&sb, "%02X", c)
				}
			case "long-comment-then-more":
				fmt.Fprintf(&sb, "%02x %02x ; %s\n", b[0], b[1], strings.Repeat("c", pad))
				for _, c := range b[2:] {
					fmt.Fprintf(&sb, "%02x\n", c)
				}
			case "long-blank-run":
				fmt.Fprintf(&sb, "%02x%s%02x\n", b[0], strings.Repeat(" ", pad), b[1])
				for _, c := range b[2:] {
					fmt.Fprintf(&sb, " %02x", c)
				}
			case "long-line-in-the-middle":
				for i, c := range b {
					fmt.Fprintf(&sb, "%02x ", c)
					if i == 10 {
						sb.WriteString("\n")
						big := r.Bytes(pad / 3)
						for _, c2 := range big {
							fmt.Fprintf(&sb, "%02x ", c2)
						}
						sb.WriteString("\n")
						b = append(append(append([]byte(nil), b[:11]...), big...), b[11:]...)
					}
				}
			}
			text := sb.String()
			evals++
			var got []byte
			var err error
			pi := monitor.Try(func() { got, err = prototest.ParseAnnotatedHex(text) })
			switch {
			case pi != nil:
				res.Violate("C20:hex:panic", "ParseAnnotatedHex panicked: "+pi.Value, map[string]any{"text_len": len(text), "kind": kind})
			case err != nil:
				res.Violate("C20:hex:valid-rejected:long-line/"+kind, "ParseAnnotatedHex rejected a valid rendering with a very long line: "+err.Error(), map[string]any{"text_len": len(text), "bytes": len(b)})
			case !bytes.Equal(got, b):
				res.Violate("C20:hex:wrong-bytes:long-line/"+kind, fmt.Sprintf("ParseAnnotatedHex returned %d bytes for a text (%d chars, longest line > 64 KiB) whose digits outside comments denote %d bytes", len(got), len(text), len(b)), map[string]any{"text_len": len(text), "kind": kind})
			}
			classes["hex-long-line/"+kind]++
			// a foreign character after the long line must still be rejected
			evals++
			bad := text + "\nzz\n"
			pi = monitor.Try(func() { _, err = prototest.ParseAnnotatedHex(bad) })
			if pi == nil && err == nil {
				res.Violate("C20:hex:invalid-accepted:after-long-line/"+kind, "ParseAnnotatedHex accepted text with \"zz\" on a line following a very long line", map[string]any{"text_len": len(bad), "kind": kind})
			}
			classes["hex-long-line-corrupt/"+kind]++
		}
	}
	res.Eval(evals)
	res.MergeClasses(classes)
}

// corruptOutsideComment inserts bad at a random position that is not inside a comment.
func corruptOutsideComment(r *monitor.Rand, text, bad string) string {
	var positions []int
	inComment := false
	for i, c := range text {
		switch {
		case c == '\n':
			inComment = false
			continue
		case c == ';':
			inComment = true
		}
		if !inComment && c != '\r' {
			positions = append(positions, i)
		}
	}
	if len(positions) == 0 {
		return ""
	}
	p := positions[r.Intn(len(positions))]
	if r.Bool() {
		// replace a hex digit instead of inserting: the number of "digits" on the line stays even, so a parser that takes
		// the foreign character for a digit does not trip over the count
		var digits []int
		for _, q := range positions {
			if c := text[q]; c >= '0' && c <= '9' || c >= 'a' && c <= 'f' || c >= 'A' && c <= 'F' {
				digits = append(digits, q)
			}
		}
		if len(digits) > 0 {
			q := digits[r.Intn(len(digits))]
			return text[:q] + bad + text[q+1:]
		}
	}
	return text[:p] + bad + text[p:]
}
