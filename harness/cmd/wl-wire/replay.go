package main

import (
	"encoding/hex"
	"encoding/json"
	"fmt"
	"io"
	"os"
	"strconv"
	"strings"

	"github.com/CrowdStrike/csproto"
	"github.com/CrowdStrike/csproto/prototest"

	"verifharness/monitor"
	"verifharness/refwire"
)

// runReplay re-executes the witness of a replay file and records what the monitor sees.
func runReplay(cfg *config, res *monitor.Result) {
	raw, err := os.ReadFile(cfg.replay)
	if err != nil {
		fmt.Fprintln(os.Stderr, err)
		os.Exit(3)
	}
	var rp struct {
		Property string         `json:"property"`
		Sig      string         `json:"sig"`
		What     string         `json:"what"`
		Witness  map[string]any `json:"witness"`
	}
	if err := json.Unmarshal(raw, &rp); err != nil {
		fmt.Fprintln(os.Stderr, err)
		os.Exit(3)
	}
	cfg.prop = rp.Property
	res.Property = rp.Property
	wit := rp.Witness
	str := func(k string) string { s, _ := wit[k].(string); return s }
	num := func(k string) int { f, _ := wit[k].(float64); return int(f) }
	fast := str("mode") == "fast"
	fmt.Printf("replaying %s\n  recorded: %s\n", rp.Sig, rp.What)
	switch {
	case rp.Property == "C20":
		b, err := prototest.ParseAnnotatedHex(str("text"))
		fmt.Printf("  ParseAnnotatedHex -> %x, err=%v\n", b, err)
		// re-judge through the normal path is not possible without the generator state; report raw outcome
		if strings.Contains(rp.Sig, "invalid-accepted") && err == nil {
			res.Violate(rp.Sig, rp.What, wit)
		}
		if strings.Contains(rp.Sig, "valid-rejected") && err != nil {
			res.Violate(rp.Sig, rp.What, wit)
		}
		if strings.Contains(rp.Sig, "wrong-bytes") {
			want, _ := hex.DecodeString(str("bytes"))
			if string(want) != string(b) {
				res.Violate(rp.Sig, rp.What, wit)
			}
		}
	case rp.Property == "C03":
		in, _ := hex.DecodeString(strings.TrimSuffix(str("input"), "..."))
		w := &totalWorker{cfg: cfg, res: res, classes: map[string]int64{}}
		placed := w.place(in)
		if str("method") == "" { // Seek witness
			d := csproto.NewDecoder(placed)
			_, _ = d.Seek(int64(num("cursor")), io.SeekStart)
			w.seek(d, placed, in, int64(wit["offset"].(float64)), num("whence"), fast)
			break
		}
		for mi := range methods {
			if methods[mi].name == str("method") {
				d := csproto.NewDecoder(placed)
				if fast {
					d.SetMode(csproto.DecoderModeFast)
				}
				_, _ = d.Seek(int64(num("offset")), io.SeekStart)
				w.one(&methods[mi], placed, in, d, fast, true, "replay")
			}
		}
	case strings.Contains(rp.Sig, ":skip:"):
		in, _ := hex.DecodeString(str("input"))
		fields, err := refwire.Walk(in)
		if err != nil {
			fmt.Println("  reference walk failed:", err)
			break
		}
		if v := skipOne(in, fields, fast); v != nil {
			fmt.Println("  monitor:", v.what)
			res.Violate(fmt.Sprintf("C02:skip:%s:%s:%s", v.failure, v.wtName, numClass(v.num)), v.what, wit)
		}
	default: // C01 / C02 single field
		w := newRT(cfg, res)
		kind := str("kind")
		if strings.HasPrefix(kind, "packed-") {
			for _, p := range packedKinds {
				if "packed-"+p.name == kind {
					var vs []uint64
					if l, ok := wit["values"].([]any); ok {
						for _, x := range l {
							if s, ok := x.(string); ok && strings.HasPrefix(s, "0x") {
								v, _ := strconv.ParseUint(s[2:], 16, 64)
								vs = append(vs, v)
							}
						}
					}
					w.packed(p, num("num"), vs, fast)
				}
			}
		} else if kind == "tag" {
			cfg.nshard, cfg.shard = 1, 0
			// a single key: run the strided sweep degenerate to this number
			n := num("num")
			buf := make([]byte, 8)
			k := csproto.EncodeTag(buf, n, csproto.WireType(num("wiretype")))
			d := csproto.NewDecoder(buf[:k])
			tag, wt, err := d.DecodeTag()
			fmt.Printf("  EncodeTag(%d) -> %x; DecodeTag -> (%d,%d,%v)\n", n, buf[:k], tag, wt, err)
			if err != nil || tag != n {
				res.Violate(rp.Sig, rp.What, wit)
			}
		} else {
			for _, k := range scalarKinds {
				if k.name == kind {
					v, _ := strconv.ParseUint(strings.TrimPrefix(str("value"), "0x"), 16, 64)
					w.scalar(k, num("num"), v, fast, true)
				}
			}
		}
		w.flush()
	}
	for _, v := range res.Violations {
		fmt.Printf("  monitor: VIOLATED %s\n    %s\n", v.Sig, v.What)
	}
	if len(res.Violations) == 0 {
		fmt.Println("  monitor: no violation observed on replay")
	}
}
