package main

import (
	"bytes"
	"fmt"
	"math"
	"strings"
	"unicode/utf8"

	"github.com/CrowdStrike/csproto"
	"google.golang.org/protobuf/encoding/protowire"

	"verifharness/monitor"
	"verifharness/refwire"
)

// field numbers whose keys take 1..5 bytes, and the 2^26 boundary
var fieldNumbers = []int{1, 2, 15, 16, 2047, 2048, 1<<21 - 1, 1 << 21, 1 << 25, 1<<26 - 1, 1 << 26, 1<<28 - 1, 1 << 28, 1<<29 - 1}

func numClass(num int) string {
	s := "key" + itoa(refwire.SizeKey(num))
	if num >= 1<<26 {
		s += "+ge2^26"
	}
	return s
}

func modeName(fast bool) string {
	if fast {
		return "fast"
	}
	return "safe"
}

const canary = 64

// rtWorker evaluates round-trip (C01) and conformance (C02) on single fields.
type rtWorker struct {
	cfg     *config
	res     *monitor.Result
	c01     bool
	arena   []byte
	ref, pw []byte
	classes map[string]int64
	evals   int64
	// current case, for the panic handler
	curKind string
	curNum  int
	curVal  string
	curMode bool
	phase   string
}

func newRT(cfg *config, res *monitor.Result) *rtWorker {
	w := &rtWorker{cfg: cfg, res: res, c01: cfg.prop == "C01", classes: map[string]int64{}}
	w.arena = make([]byte, canary+(1<<20)+canary)
	return w
}

func (w *rtWorker) buf(n int) []byte {
	if canary+n+canary > len(w.arena) {
		w.arena = make([]byte, canary+n+canary)
	}
	for i := 0; i < canary; i++ {
		w.arena[i] = 0xC3
		w.arena[canary+n+i] = 0xC3
	}
	return w.arena[canary : canary+n : canary+n]
}

func (w *rtWorker) canariesOK(n int) bool {
	for i := 0; i < canary; i++ {
		if w.arena[i] != 0xC3 || w.arena[canary+n+i] != 0xC3 {
			return false
		}
	}
	return true
}

func fill(b []byte, c byte) {
	for i := range b {
		b[i] = c
	}
}

func (w *rtWorker) viol(kind, failure, vclass string, num int, fast bool, what string, wit map[string]any) {
	sig := fmt.Sprintf("%s:%s:%s:%s", w.cfg.prop, kind, failure, vclass)
	if strings.HasPrefix(failure, "decode-tag") || kind == "tag" {
		sig += ":" + numClass(num)
	}
	if wit == nil {
		wit = map[string]any{}
	}
	wit["kind"] = kind
	wit["num"] = num
	wit["mode"] = modeName(fast)
	w.res.Violate(sig, what, wit)
}

func (w *rtWorker) flush() {
	w.res.Eval(w.evals)
	w.evals = 0
	w.res.MergeClasses(w.classes)
	w.classes = map[string]int64{}
}

// scalar evaluates one (kind, number, value, mode) case.
func (w *rtWorker) scalar(k *kindDesc, num int, v uint64, fast bool, twoFill bool) {
	v = k.norm(v)
	w.curKind, w.curNum, w.curMode, w.phase = k.name, num, fast, "encode"
	defer func() {
		if r := recover(); r != nil {
			w.viol(k.name, "panic-"+w.phase, k.vclass(v), num, fast,
				fmt.Sprintf("%s of %s value %#x at field %d panicked: %v", w.phase, k.name, v, num, r),
				map[string]any{"value": fmt.Sprintf("%#x", v), "panic": fmt.Sprint(r)})
		}
	}()
	w.evals++
	// reference encodings
	w.ref = k.ref(refwire.AppendKey(w.ref[:0], num, k.wt), v)
	w.pw = k.pw(protowire.AppendTag(w.pw[:0], protowire.Number(num), protowire.Type(k.wt)), v)
	if !bytes.Equal(w.ref, w.pw) {
		w.res.Inconc(fmt.Sprintf("references disagree on %s %#x field %d: %x vs %x", k.name, v, num, w.ref, w.pw))
		return
	}
	psize := csproto.SizeOfTagKey(num) + k.size(v)
	vc := k.vclass(v)
	if len(w.ref) >= 2 {
		w.classes[k.name+"/"+vc+"/"+numClass(num)+"/"+modeName(fast)]++
	}
	if psize != len(w.ref) {
		// the size helpers disagree with the canonical size
		if w.c01 {
			w.viol(k.name, "size-helper", vc, num, fast,
				fmt.Sprintf("size helpers predict %d bytes for %s %#x at field %d, canonical encoding is %d", psize, k.name, v, num, len(w.ref)),
				map[string]any{"value": fmt.Sprintf("%#x", v), "predicted": psize, "canonical": len(w.ref)})
		}
		if psize < len(w.ref) {
			psize = len(w.ref) // give the encoder room so the remaining checks are meaningful
		}
	}
	b := w.buf(psize)
	fill(b, 0xAA)
	enc := csproto.NewEncoder(b)
	k.enc(enc, num, v)
	off := enc.VerifOffset()
	if w.c01 && off != csproto.SizeOfTagKey(num)+k.size(v) {
		w.viol(k.name, "written-ne-predicted", vc, num, fast,
			fmt.Sprintf("encoder wrote %d bytes, size helpers predicted %d", off, csproto.SizeOfTagKey(num)+k.size(v)),
			map[string]any{"value": fmt.Sprintf("%#x", v)})
	}
	if !w.canariesOK(psize) {
		w.viol(k.name, "overrun", vc, num, fast, "encoder wrote outside its buffer", map[string]any{"value": fmt.Sprintf("%#x", v)})
	}
	if off < 0 || off > len(b) {
		w.viol(k.name, "cursor-out-of-buffer", vc, num, fast, "encoder cursor outside buffer", map[string]any{"value": fmt.Sprintf("%#x", v), "offset": off})
		return
	}
	if !w.c01 && !bytes.Equal(b[:off], w.ref) {
		w.viol(k.name, "bytes-ne-reference", vc, num, fast,
			fmt.Sprintf("encoder produced %x, reference %x", b[:off], w.ref),
			map[string]any{"value": fmt.Sprintf("%#x", v), "got": fmt.Sprintf("%x", b[:off]), "want": fmt.Sprintf("%x", w.ref)})
	}
	if w.c01 && twoFill {
		b2 := make([]byte, len(b))
		copy(b2, b)
		fill(b, 0x55)
		k.enc(csproto.NewEncoder(b), num, v)
		for i := range b {
			if b[i] != b2[i] {
				w.viol(k.name, "slack", vc, num, fast, fmt.Sprintf("byte %d of a buffer of the predicted size was never written", i),
					map[string]any{"value": fmt.Sprintf("%#x", v)})
				break
			}
		}
	}
	// decode: C01 reads back what csproto wrote, C02 reads the reference's bytes
	w.phase = "decode"
	src := b[:off]
	if !w.c01 {
		src = w.buf(len(w.ref))
		copy(src, w.ref)
	}
	dec := csproto.NewDecoder(src)
	if fast {
		dec.SetMode(csproto.DecoderModeFast)
	}
	tag, wt, err := dec.DecodeTag()
	if err != nil {
		w.viol(k.name, "decode-tag-error", "-", num, fast, fmt.Sprintf("DecodeTag failed on a valid key for field %d: %v", num, err),
			map[string]any{"bytes": fmt.Sprintf("%x", src), "error": err.Error()})
		return
	}
	if tag != num || int(wt) != k.wt {
		w.viol(k.name, "decode-tag-value", "-", num, fast, fmt.Sprintf("DecodeTag returned (%d,%d), want (%d,%d)", tag, wt, num, k.wt),
			map[string]any{"bytes": fmt.Sprintf("%x", src)})
		return
	}
	got, err := k.dec(dec)
	if err != nil {
		w.viol(k.name, "decode-error", vc, num, fast, fmt.Sprintf("decoding a valid %s (%#x) failed: %v", k.name, v, err),
			map[string]any{"value": fmt.Sprintf("%#x", v), "bytes": fmt.Sprintf("%x", src), "error": err.Error()})
		return
	}
	if got != v {
		w.viol(k.name, "value-changed", vc, num, fast, fmt.Sprintf("wrote %s %#x, read back %#x", k.name, v, got),
			map[string]any{"value": fmt.Sprintf("%#x", v), "got": fmt.Sprintf("%#x", got), "bytes": fmt.Sprintf("%x", src)})
	}
	if dec.Offset() != len(src) || dec.More() {
		w.viol(k.name, "consumed-ne-written", vc, num, fast, fmt.Sprintf("decoder consumed %d of %d bytes", dec.Offset(), len(src)),
			map[string]any{"value": fmt.Sprintf("%#x", v), "bytes": fmt.Sprintf("%x", src)})
	}
	// the same field with more data behind it in the buffer
	w.phase = "decode-with-trailing-data"
	src2 := withTrailer(src)
	dec2 := csproto.NewDecoder(src2)
	if fast {
		dec2.SetMode(csproto.DecoderModeFast)
	}
	if _, _, err := dec2.DecodeTag(); err != nil {
		w.viol(k.name, "decode-tag-error:trailing-data", "-", num, fast, fmt.Sprintf("DecodeTag failed on a valid key for field %d: %v", num, err), nil)
		return
	}
	got2, err := k.dec(dec2)
	switch {
	case err != nil:
		w.viol(k.name, "decode-error:trailing-data", vc, num, fast, fmt.Sprintf("decoding a valid %s (%#x) followed by other fields failed: %v", k.name, v, err), map[string]any{"bytes": fmt.Sprintf("%x", src2)})
	case got2 != v:
		w.viol(k.name, "value-changed:trailing-data", vc, num, fast, fmt.Sprintf("wrote %s %#x followed by other fields, read back %#x", k.name, v, got2), map[string]any{"bytes": fmt.Sprintf("%x", src2)})
	default:
		if msg := afterField(dec2, len(src)); msg != "" {
			w.viol(k.name, "consumed-ne-written:trailing-data", vc, num, fast, msg, map[string]any{"bytes": fmt.Sprintf("%x", src2)})
		}
	}
}

// trailer is what follows the field under test in the "more data behind it" decode: a fixed64 field and a string
// field (17 bytes), enough for every multi-byte fast path of the decoder to be taken.
var trailer = []byte{0x19, 0xEF, 0xBE, 0xAD, 0xDE, 0x0D, 0xF0, 0xFE, 0xCA, 0x22, 0x06, 't', 'r', 'a', 'i', 'l', '!'}

// withTrailer returns src followed by trailer in a fresh buffer.
func withTrailer(src []byte) []byte {
	return append(append(make([]byte, 0, len(src)+len(trailer)), src...), trailer...)
}

// afterField checks that the decoder stands exactly behind the field (at n) and reads the trailer's first key next.
func afterField(dec *csproto.Decoder, n int) string {
	if dec.Offset() != n {
		return fmt.Sprintf("decoder consumed %d bytes, the field is %d bytes long", dec.Offset(), n)
	}
	t, wt, err := dec.DecodeTag()
	if err != nil || t != 3 || wt != csproto.WireTypeFixed64 {
		return fmt.Sprintf("the key behind the field reads as (%d,%d,%v), written (3,fixed64)", t, wt, err)
	}
	return ""
}

// lenField evaluates a string or bytes field.
func (w *rtWorker) lenField(isString bool, num int, payload []byte, fast bool) {
	kind := "bytes"
	if isString {
		kind = "string"
	}
	vc := lenClass(len(payload))
	w.phase = "encode"
	defer func() {
		if r := recover(); r != nil {
			w.viol(kind, "panic-"+w.phase, vc, num, fast, fmt.Sprintf("%s of %s len %d at field %d panicked: %v", w.phase, kind, len(payload), num, r),
				map[string]any{"len": len(payload), "panic": fmt.Sprint(r)})
		}
	}()
	w.evals++
	ref := refwire.AppendLen(refwire.AppendKey(nil, num, refwire.WTLen), payload)
	pw := protowire.AppendBytes(protowire.AppendTag(nil, protowire.Number(num), protowire.BytesType), payload)
	if !bytes.Equal(ref, pw) {
		w.res.Inconc("references disagree on a length-delimited field")
		return
	}
	w.classes[kind+"/"+vc+"/"+numClass(num)+"/"+modeName(fast)]++
	psize := csproto.SizeOfTagKey(num) + csproto.SizeOfVarint(uint64(len(payload))) + len(payload)
	if psize != len(ref) && w.c01 {
		w.viol(kind, "size-helper", vc, num, fast, fmt.Sprintf("size helpers predict %d, canonical %d", psize, len(ref)), nil)
	}
	if psize < len(ref) {
		psize = len(ref)
	}
	b := w.buf(psize)
	var off int
	for pass, c := range []byte{0xAA, 0x55} {
		fill(b, c)
		enc := csproto.NewEncoder(b)
		if isString {
			enc.EncodeString(num, string(payload))
		} else {
			enc.EncodeBytes(num, payload)
		}
		off = enc.VerifOffset()
		if pass == 0 && w.c01 {
			// written bytes are compared against the reference position by position: any 0xAA left where
			// the reference has another value would show as a difference below; slack = bytes beyond off
			if off != psize {
				w.viol(kind, "written-ne-predicted", vc, num, fast, fmt.Sprintf("encoder wrote %d bytes, predicted %d", off, psize), map[string]any{"len": len(payload)})
			}
		}
		if !w.canariesOK(psize) {
			w.viol(kind, "overrun", vc, num, fast, "encoder wrote outside its buffer", nil)
		}
		if off >= 0 && off <= len(b) && !bytes.Equal(b[:off], ref) {
			f := "bytes-ne-reference"
			if w.c01 {
				f = "slack-or-garbled"
			}
			w.viol(kind, f, vc, num, fast, fmt.Sprintf("encoder output differs from the canonical encoding (len %d)", len(payload)), map[string]any{"len": len(payload)})
		}
	}
	if off < 0 || off > len(b) {
		return
	}
	w.phase = "decode"
	src := b[:off]
	dec := csproto.NewDecoder(src)
	if fast {
		dec.SetMode(csproto.DecoderModeFast)
	}
	tag, wt, err := dec.DecodeTag()
	if err != nil {
		w.viol(kind, "decode-tag-error", "-", num, fast, fmt.Sprintf("DecodeTag failed on a valid key for field %d: %v", num, err), map[string]any{"error": err.Error()})
		return
	}
	if tag != num || int(wt) != refwire.WTLen {
		w.viol(kind, "decode-tag-value", "-", num, fast, fmt.Sprintf("DecodeTag returned (%d,%d)", tag, wt), nil)
		return
	}
	var got []byte
	if isString {
		s, err := dec.DecodeString()
		if err != nil {
			w.viol(kind, "decode-error", vc, num, fast, "DecodeString failed on valid data: "+err.Error(), nil)
			return
		}
		got = []byte(s) // copies, so comparing after buffer reuse is safe
	} else {
		g, err := dec.DecodeBytes()
		if err != nil {
			w.viol(kind, "decode-error", vc, num, fast, "DecodeBytes failed on valid data: "+err.Error(), nil)
			return
		}
		got = g
	}
	if !bytes.Equal(got, payload) {
		w.viol(kind, "value-changed", vc, num, fast, fmt.Sprintf("read back a different %s (len %d vs %d)", kind, len(got), len(payload)), nil)
	}
	if dec.Offset() != len(src) || dec.More() {
		w.viol(kind, "consumed-ne-written", vc, num, fast, fmt.Sprintf("decoder consumed %d of %d bytes", dec.Offset(), len(src)), nil)
	}
}

func lenClass(n int) string {
	switch {
	case n == 0:
		return "len0"
	case n < 128:
		return "len<128"
	case n < 16384:
		return "len<16384"
	case n < 2097152:
		return "len<2^21"
	}
	return "len>=2^21"
}

func listClass(p *packedDesc, vs []uint64) string {
	s := "n" + lenClassShort(len(vs))
	neg, zero := false, false
	for _, v := range vs {
		c := p.elem.vclass(v)
		if c == "neg" || (len(c) > 3 && c[:3] == "neg") {
			neg = true
		}
		if v == 0 {
			zero = true
		}
	}
	if neg {
		s += "+neg"
	}
	if zero {
		s += "+zero"
	}
	return s
}

func lenClassShort(n int) string {
	switch {
	case n == 0:
		return "0"
	case n == 1:
		return "1"
	case n < 128:
		return "<128"
	}
	return ">=128"
}

// packed evaluates one packed list.
func (w *rtWorker) packed(p *packedDesc, num int, vs []uint64, fast bool) {
	for i := range vs {
		vs[i] = p.elem.norm(vs[i])
	}
	vc := listClass(p, vs)
	kind := "packed-" + p.name
	w.phase = "encode"
	defer func() {
		if r := recover(); r != nil {
			w.viol(kind, "panic-"+w.phase, vc, num, fast, fmt.Sprintf("%s of packed %s list (%d elements) at field %d panicked: %v", w.phase, p.name, len(vs), num, r),
				map[string]any{"values": hexList(vs), "panic": fmt.Sprint(r)})
		}
	}()
	w.evals++
	var ref, pw []byte
	if len(vs) > 0 { // an empty packed list is not written at all
		var pl, pl2 []byte
		for _, v := range vs {
			pl = p.elem.ref(pl, v)
			pl2 = p.elem.pw(pl2, v)
		}
		ref = refwire.AppendLen(refwire.AppendKey(nil, num, refwire.WTLen), pl)
		pw = protowire.AppendBytes(protowire.AppendTag(nil, protowire.Number(num), protowire.BytesType), pl2)
	}
	if !bytes.Equal(ref, pw) {
		w.res.Inconc("references disagree on a packed field")
		return
	}
	w.classes[kind+"/"+vc+"/"+numClass(num)+"/"+modeName(fast)]++
	psize := 0
	if len(vs) > 0 {
		l := 0
		for _, v := range vs {
			l += p.elem.size(v)
		}
		psize = csproto.SizeOfTagKey(num) + csproto.SizeOfVarint(uint64(l)) + l
	}
	if psize != len(ref) && w.c01 {
		w.viol(kind, "size-helper", vc, num, fast, fmt.Sprintf("size helpers predict %d, canonical %d", psize, len(ref)), map[string]any{"values": hexList(vs)})
	}
	if psize < len(ref) {
		psize = len(ref)
	}
	b := w.buf(psize)
	var off int
	for _, c := range []byte{0xAA, 0x55} {
		fill(b, c)
		enc := csproto.NewEncoder(b)
		p.enc(enc, num, vs)
		off = enc.VerifOffset()
		if w.c01 && off != psize {
			w.viol(kind, "written-ne-predicted", vc, num, fast, fmt.Sprintf("encoder wrote %d bytes, predicted %d", off, psize), map[string]any{"values": hexList(vs)})
		}
		if !w.canariesOK(psize) {
			w.viol(kind, "overrun", vc, num, fast, "encoder wrote outside its buffer", nil)
		}
		if off >= 0 && off <= len(b) && !bytes.Equal(b[:off], ref) {
			f := "bytes-ne-reference"
			if w.c01 {
				f = "slack-or-garbled"
			}
			w.viol(kind, f, vc, num, fast, fmt.Sprintf("encoder output %x differs from canonical %x", clip(b[:off]), clip(ref)), map[string]any{"values": hexList(vs)})
		}
	}
	if off <= 0 || off > len(b) {
		return
	}
	w.phase = "decode"
	src := b[:off]
	if !w.c01 {
		src = w.buf(len(ref))
		copy(src, ref)
	}
	dec := csproto.NewDecoder(src)
	if fast {
		dec.SetMode(csproto.DecoderModeFast)
	}
	tag, wt, err := dec.DecodeTag()
	if err != nil {
		w.viol(kind, "decode-tag-error", "-", num, fast, fmt.Sprintf("DecodeTag failed on a valid key for field %d: %v", num, err), map[string]any{"error": err.Error()})
		return
	}
	if tag != num || int(wt) != refwire.WTLen {
		w.viol(kind, "decode-tag-value", "-", num, fast, fmt.Sprintf("DecodeTag returned (%d,%d)", tag, wt), nil)
		return
	}
	got, err := p.dec(dec)
	if err != nil {
		w.viol(kind, "decode-error", vc, num, fast, fmt.Sprintf("decoding a valid packed %s list failed: %v", p.name, err),
			map[string]any{"values": hexList(vs), "bytes": fmt.Sprintf("%x", clip(src)), "error": err.Error()})
		return
	}
	same := len(got) == len(vs)
	for i := 0; same && i < len(vs); i++ {
		same = p.elem.norm(got[i]) == vs[i]
	}
	if !same {
		w.viol(kind, "value-changed", vc, num, fast, fmt.Sprintf("packed %s list read back differently (%d vs %d elements)", p.name, len(got), len(vs)),
			map[string]any{"values": hexList(vs), "got": hexList(got)})
	}
	if dec.Offset() != len(src) || dec.More() {
		w.viol(kind, "consumed-ne-written", vc, num, fast, fmt.Sprintf("decoder consumed %d of %d bytes", dec.Offset(), len(src)), nil)
	}
	// the same list with more data behind it in the buffer
	w.phase = "decode-with-trailing-data"
	src2 := withTrailer(src)
	dec2 := csproto.NewDecoder(src2)
	if fast {
		dec2.SetMode(csproto.DecoderModeFast)
	}
	if _, _, err := dec2.DecodeTag(); err != nil {
		return
	}
	got2, err := p.dec(dec2)
	same = err == nil && len(got2) == len(vs)
	for i := 0; same && i < len(vs); i++ {
		same = p.elem.norm(got2[i]) == vs[i]
	}
	switch {
	case err != nil:
		w.viol(kind, "decode-error:trailing-data", vc, num, fast, fmt.Sprintf("decoding a valid packed %s list followed by other fields failed: %v", p.name, err), map[string]any{"values": hexList(vs)})
	case !same:
		w.viol(kind, "value-changed:trailing-data", vc, num, fast, fmt.Sprintf("packed %s list followed by other fields read back differently (%d vs %d elements)", p.name, len(got2), len(vs)),
			map[string]any{"values": hexList(vs), "got": hexList(got2)})
	default:
		if msg := afterField(dec2, len(src)); msg != "" {
			w.viol(kind, "consumed-ne-written:trailing-data", vc, num, fast, msg, nil)
		}
	}
}

func clip(b []byte) []byte {
	if len(b) > 64 {
		return b[:64]
	}
	return b
}

func hexList(vs []uint64) []string {
	n := len(vs)
	if n > 16 {
		n = 16
	}
	out := make([]string, 0, n+1)
	for _, v := range vs[:n] {
		out = append(out, fmt.Sprintf("%#x", v))
	}
	if len(vs) > n {
		out = append(out, fmt.Sprintf("... (%d total)", len(vs)))
	}
	return out
}

// boundaryValues returns the systematic value set of a kind.
func boundaryValues(k *kindDesc) []uint64 {
	seen := map[uint64]bool{}
	var out []uint64
	add := func(v uint64) {
		v = k.norm(v)
		if !seen[v] {
			seen[v] = true
			out = append(out, v)
		}
	}
	for l := 0; l <= 64; l++ {
		var p uint64
		if l < 64 {
			p = 1 << uint(l)
		}
		for _, d := range []uint64{0, 1, ^uint64(0)} { // 2^l, 2^l+1, 2^l-1
			add(p + d)
			add(-(p + d)) // negatives
		}
	}
	add(0)
	add(math.MaxUint64)
	add(math.MaxInt64)
	add(1 << 63)
	add(math.MaxInt32)
	add(1 << 31)
	add(math.MaxUint32)
	switch k.name {
	case "float":
		for _, b := range []uint32{0, 0x80000000, 0x7f800000, 0xff800000, 0x7fc00000, 0x7fc00001, 0x7f800001, 0xffc00000, 0xffffffff, 0x7fffffff, 1, 0x007fffff, 0x00800000, 0x7f7fffff, 0x3f800000} {
			add(uint64(b))
		}
	case "double":
		for _, b := range []uint64{0, 1 << 63, 0x7ff0000000000000, 0xfff0000000000000, 0x7ff8000000000000, 0x7ff8000000000001, 0x7ff0000000000001, 0xfff8000000000000, math.MaxUint64, 1, 0x000fffffffffffff, 0x0010000000000000, 0x7fefffffffffffff, 0x3ff0000000000000} {
			add(b)
		}
	}
	return out
}

func randValue(r *monitor.Rand, k *kindDesc) uint64 {
	// random bit length, then random bits, random sign extension
	l := r.Intn(65)
	v := r.Uint64()
	if l < 64 {
		v &= (1 << uint(l)) - 1
	}
	if r.Chance(1, 4) {
		v = -v
	}
	return k.norm(v)
}

func runRoundTrip(cfg *config, res *monitor.Result) {
	w := newRT(cfg, res)
	idx := 0
	// 1. boundary values x all field numbers x both modes (two-fill on all of them)
	for _, k := range scalarKinds {
		bv := boundaryValues(k)
		for _, v := range bv {
			for _, num := range fieldNumbers {
				idx++
				if !cfg.mine(idx) {
					continue
				}
				for _, fast := range []bool{false, true} {
					w.scalar(k, num, v, fast, true)
				}
			}
		}
		if res.WantSample() && cfg.shard == 0 {
			res.Sample(map[string]any{"kind": k.name, "field": fieldNumbers[3], "value": fmt.Sprintf("%#x", bv[len(bv)/2]), "modes": "safe,fast", "family": "boundary"})
		}
	}
	w.flush()
	// 2. seeded random values
	nrand := 100000
	if cfg.thorough() {
		nrand = 400000
	}
	for _, k := range scalarKinds {
		r := monitor.NewRand(cfg.seed, "rt-scalar", k.name, cfg.shard)
		for i := 0; i < nrand/cfg.nshard; i++ {
			v := randValue(r, k)
			num := fieldNumbers[r.Intn(len(fieldNumbers))]
			if r.Chance(1, 3) {
				num = 1 + r.Intn(refwire.MaxFieldNumber)
			}
			w.scalar(k, num, v, r.Bool(), i%64 == 0)
		}
	}
	w.flush()
	// 3. strings and bytes
	lens := []int{0, 1, 2, 127, 128, 129, 16383, 16384, 70000}
	if cfg.thorough() {
		lens = append(lens, 2097151, 2097152, 3000000)
	}
	for li, n := range lens {
		for ni, num := range fieldNumbers {
			idx++
			if !cfg.mine(idx) {
				continue
			}
			r := monitor.NewRand(cfg.seed, "rt-len", li, ni)
			payload := r.Bytes(n)
			text := validUTF8(r, n)
			for _, fast := range []bool{false, true} {
				w.lenField(false, num, payload, fast)
				w.lenField(true, num, payload, fast) // arbitrary bytes in a Go string are legal for the codec
				w.lenField(true, num, text, fast)
			}
			if li == 3 && ni == 0 && res.WantSample() {
				res.Sample(map[string]any{"kind": "string", "field": num, "len": n, "family": "length boundary"})
			}
		}
	}
	nl := 2000
	if cfg.thorough() {
		nl = 40000
	}
	{
		r := monitor.NewRand(cfg.seed, "rt-lenrand", cfg.shard)
		for i := 0; i < nl/cfg.nshard; i++ {
			n := r.Intn(300)
			if r.Chance(1, 10) {
				n = r.Intn(40000)
			}
			num := 1 + r.Intn(refwire.MaxFieldNumber)
			w.lenField(r.Bool(), num, r.Bytes(n), r.Bool())
		}
	}
	w.flush()
	// 4. packed lists
	plens := []int{0, 1, 2, 3, 127, 128, 129, 5000}
	for _, p := range packedKinds {
		bv := boundaryValues(p.elem)
		for li, n := range plens {
			for ni, num := range fieldNumbers {
				idx++
				if !cfg.mine(idx) {
					continue
				}
				r := monitor.NewRand(cfg.seed, "rt-packed", p.name, li, ni)
				for variant := 0; variant < 4; variant++ {
					vs := make([]uint64, n)
					for i := range vs {
						switch variant {
						case 0: // boundary values in rotation (negatives, zero, max included)
							vs[i] = bv[(i+ni)%len(bv)]
						case 1: // all zero
							vs[i] = 0
						case 2: // all "negative"/max
							vs[i] = math.MaxUint64
						default:
							vs[i] = randValue(r, p.elem)
						}
					}
					for _, fast := range []bool{false, true} {
						w.packed(p, num, vs, fast)
					}
				}
			}
		}
		if res.WantSample() && cfg.shard == 0 {
			res.Sample(map[string]any{"kind": "packed-" + p.name, "field": 16, "elements": hexList(bv[:5]), "family": "boundary rotation"})
		}
	}
	np := 3000
	if cfg.thorough() {
		np = 60000
	}
	for _, p := range packedKinds {
		r := monitor.NewRand(cfg.seed, "rt-packedrand", p.name, cfg.shard)
		for i := 0; i < np/cfg.nshard; i++ {
			n := r.Intn(40)
			vs := make([]uint64, n)
			for j := range vs {
				vs[j] = randValue(r, p.elem)
			}
			w.packed(p, 1+r.Intn(refwire.MaxFieldNumber), vs, r.Bool())
		}
	}
	w.flush()
	if cfg.thorough() {
		sweep32(cfg, res, w)
		sweepFieldNumbers(cfg, res, w)
		sweep64Classes(cfg, res, w)
	} else {
		// quick tier: a strided sample of the field-number space through the tag functions
		sweepTags(cfg, res, w, 4099)
	}
	w.flush()
}

// sweep32 enumerates all 2^32 values of every 32-bit kind (this shard's slice of them), singular, with
// the field number and mode rotating; every 2^16-th value is also sent through a one-element packed list.
func sweep32(cfg *config, res *monitor.Result, w *rtWorker) {
	total := uint64(1) << 32
	lo := total / uint64(cfg.nshard) * uint64(cfg.shard)
	hi := total / uint64(cfg.nshard) * uint64(cfg.shard+1)
	if cfg.shard == cfg.nshard-1 {
		hi = total
	}
	for _, k := range scalarKinds {
		if k.bits != 32 {
			continue
		}
		var p *packedDesc
		for _, pk := range packedKinds {
			if pk.name == k.name {
				p = pk
			}
		}
		cfg.progress.Set("sweep32", k.name)
		for v := lo; v < hi; v++ {
			num := fieldNumbers[int(v%uint64(len(fieldNumbers)))]
			w.scalar(k, num, v, v&16 != 0, false)
			if v&0xffff == 0 {
				if p != nil {
					w.packed(p, num, []uint64{v}, v&16 != 0)
				}
				if v&0xffffff == 0 {
					w.flush()
				}
			}
		}
		res.Extra("exhaustive_2^32_values_"+k.name, int64(hi-lo))
		w.flush()
	}
}

// sweepFieldNumbers sends every field number through EncodeTag/SizeOfTagKey/DecodeTag with all four
// supported wire types.
func sweepFieldNumbers(cfg *config, res *monitor.Result, w *rtWorker) {
	sweepTags(cfg, res, w, 1)
	res.Extra("exhaustive_field_numbers", 1)
}

var wireTypes = []int{refwire.WTVarint, refwire.WTFixed64, refwire.WTLen, refwire.WTFixed32}

func sweepTags(cfg *config, res *monitor.Result, w *rtWorker, stride int) {
	var kb [16]byte
	buf := make([]byte, 8)
	count := int64(0)
	reported := map[string]bool{}
	cfg.progress.Set("sweepTags")
	start := 1 + cfg.shard*stride
	for num := start; num <= refwire.MaxFieldNumber; num += stride * cfg.nshard {
		for _, wt := range wireTypes {
			count++
			ref := refwire.AppendKey(kb[:0], num, wt)
			n := func() (n int) {
				defer func() {
					if r := recover(); r != nil {
						n = -1
					}
				}()
				for i := range buf {
					buf[i] = 0xAA
				}
				return csproto.EncodeTag(buf, num, csproto.WireType(wt))
			}()
			fail := ""
			switch {
			case n < 0:
				fail = "panic-encode"
			case n != len(ref) || !bytes.Equal(buf[:n], ref):
				fail = "bytes-ne-reference"
			case csproto.SizeOfTagKey(num) != n:
				fail = "size-helper"
			}
			if fail == "" {
				d := csproto.NewDecoder(buf[:n])
				tag, gwt, err := d.DecodeTag()
				switch {
				case err != nil:
					fail = "decode-tag-error"
				case tag != num || int(gwt) != wt:
					fail = "decode-tag-value"
				case d.Offset() != n:
					fail = "consumed-ne-written"
				}
			}
			if fail != "" {
				key := fail + numClass(num)
				if !reported[key] {
					reported[key] = true
					w.viol("tag", fail, "-", num, false, fmt.Sprintf("field key for number %d wire type %d: %s", num, wt, fail), map[string]any{"wiretype": wt, "key": fmt.Sprintf("%x", ref)})
				}
			}
		}
		if num&0xfffff == 0 {
			cfg.progress.Set("sweepTags", itoa(num))
		}
	}
	res.Eval(count)
	res.ClassN("tag-sweep/stride"+itoa(stride), 1)
	for kl := 1; kl <= 5; kl++ {
		res.ClassN("tag/key"+itoa(kl), 1)
	}
}

// sweep64Classes: 64 bit-length classes x 2 signs x 4096 seeded values for each 64-bit kind.
func sweep64Classes(cfg *config, res *monitor.Result, w *rtWorker) {
	for _, k := range scalarKinds {
		if k.bits != 64 {
			continue
		}
		r := monitor.NewRand(cfg.seed, "sweep64", k.name, cfg.shard)
		for l := 1; l <= 64; l++ {
			for sign := 0; sign < 2; sign++ {
				for i := 0; i < 4096/cfg.nshard+1; i++ {
					v := r.Uint64()
					if l < 64 {
						v &= (1 << uint(l)) - 1
					}
					v |= 1 << uint(l-1)
					if sign == 1 {
						v = -v
					}
					num := fieldNumbers[r.Intn(len(fieldNumbers))]
					w.scalar(k, num, v, r.Bool(), false)
				}
			}
		}
		w.flush()
	}
}

func validUTF8(r *monitor.Rand, n int) []byte {
	runes := []rune{'a', 'Z', '0', ' ', 'é', 'ß', '世', '界', '🙂', 0x7f, 0x80, 0x7ff, 0x800, 0xffff, 0x10000, 0x10ffff}
	out := make([]byte, 0, n)
	for len(out) < n {
		c := runes[r.Intn(len(runes))]
		if len(out)+utf8.RuneLen(c) > n {
			c = 'x'
		}
		out = utf8.AppendRune(out, c)
	}
	return out
}
