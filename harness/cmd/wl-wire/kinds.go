package main

import (
	"math"

	"github.com/CrowdStrike/csproto"
	"google.golang.org/protobuf/encoding/protowire"

	"verifharness/refwire"
)

// kindDesc describes one scalar kind of the hand-written codec. Values travel as uint64 bit carriers.
type kindDesc struct {
	name string
	wt   int
	bits int // 1, 32 or 64: size of the value domain
	// norm maps an arbitrary carrier into the kind's domain (canonical carrier)
	norm func(v uint64) uint64
	enc  func(e *csproto.Encoder, num int, v uint64)
	dec  func(d *csproto.Decoder) (uint64, error)
	// size is the payload size predicted from csproto's size helpers, the way generated code does it
	size func(v uint64) int
	// ref appends the payload with the spec-derived codec, pw with protowire
	ref func(b []byte, v uint64) []byte
	pw  func(b []byte, v uint64) []byte
	// vclass gives the value class used in signatures and coverage classes
	vclass func(v uint64) string
}

func sx32(v uint64) uint64 { return uint64(int64(int32(uint32(v)))) } // sign-extend low 32 bits

func varintClass(v uint64) string {
	return "len" + itoa(refwire.SizeVarint(v))
}

func itoa(n int) string {
	if n == 0 {
		return "0"
	}
	neg := n < 0
	if neg {
		n = -n
	}
	var b [20]byte
	i := len(b)
	for n > 0 {
		i--
		b[i] = byte('0' + n%10)
		n /= 10
	}
	if neg {
		i--
		b[i] = '-'
	}
	return string(b[i:])
}

func floatClass32(v uint64) string {
	f := math.Float32frombits(uint32(v))
	switch {
	case f != f:
		return "nan"
	case math.IsInf(float64(f), 0):
		return "inf"
	case f == 0:
		if uint32(v) != 0 {
			return "negzero"
		}
		return "zero"
	case uint32(v)&0x7f800000 == 0:
		return "subnormal"
	}
	return "normal"
}

func floatClass64(v uint64) string {
	f := math.Float64frombits(v)
	switch {
	case f != f:
		return "nan"
	case math.IsInf(f, 0):
		return "inf"
	case f == 0:
		if v != 0 {
			return "negzero"
		}
		return "zero"
	case v&0x7ff0000000000000 == 0:
		return "subnormal"
	}
	return "normal"
}

var scalarKinds = []*kindDesc{
	{
		name: "bool", wt: refwire.WTVarint, bits: 1,
		norm: func(v uint64) uint64 { return v & 1 },
		enc:  func(e *csproto.Encoder, num int, v uint64) { e.EncodeBool(num, v != 0) },
		dec: func(d *csproto.Decoder) (uint64, error) {
			b, err := d.DecodeBool()
			if b {
				return 1, err
			}
			return 0, err
		},
		size:   func(v uint64) int { return 1 },
		ref:    func(b []byte, v uint64) []byte { return refwire.AppendVarint(b, v) },
		pw:     func(b []byte, v uint64) []byte { return protowire.AppendVarint(b, protowire.EncodeBool(v != 0)) },
		vclass: func(v uint64) string { return "b" + itoa(int(v)) },
	},
	{
		name: "int32", wt: refwire.WTVarint, bits: 32,
		norm: func(v uint64) uint64 { return v & math.MaxUint32 },
		enc:  func(e *csproto.Encoder, num int, v uint64) { e.EncodeInt32(num, int32(uint32(v))) },
		dec: func(d *csproto.Decoder) (uint64, error) {
			x, err := d.DecodeInt32()
			return uint64(uint32(x)), err
		},
		size: func(v uint64) int { return csproto.SizeOfVarint(uint64(int32(uint32(v)))) },
		ref:  func(b []byte, v uint64) []byte { return refwire.AppendVarint(b, sx32(v)) },
		pw:   func(b []byte, v uint64) []byte { return protowire.AppendVarint(b, uint64(int64(int32(uint32(v))))) },
		vclass: func(v uint64) string {
			if int32(uint32(v)) < 0 {
				return "neg"
			}
			return varintClass(v)
		},
	},
	{
		name: "int64", wt: refwire.WTVarint, bits: 64,
		norm: func(v uint64) uint64 { return v },
		enc:  func(e *csproto.Encoder, num int, v uint64) { e.EncodeInt64(num, int64(v)) },
		dec: func(d *csproto.Decoder) (uint64, error) {
			x, err := d.DecodeInt64()
			return uint64(x), err
		},
		size: func(v uint64) int { return csproto.SizeOfVarint(uint64(int64(v))) },
		ref:  func(b []byte, v uint64) []byte { return refwire.AppendVarint(b, v) },
		pw:   func(b []byte, v uint64) []byte { return protowire.AppendVarint(b, v) },
		vclass: func(v uint64) string {
			if int64(v) < 0 {
				return "neg"
			}
			return varintClass(v)
		},
	},
	{
		name: "uint32", wt: refwire.WTVarint, bits: 32,
		norm: func(v uint64) uint64 { return v & math.MaxUint32 },
		enc:  func(e *csproto.Encoder, num int, v uint64) { e.EncodeUInt32(num, uint32(v)) },
		dec: func(d *csproto.Decoder) (uint64, error) {
			x, err := d.DecodeUInt32()
			return uint64(x), err
		},
		size:   func(v uint64) int { return csproto.SizeOfVarint(uint64(uint32(v))) },
		ref:    func(b []byte, v uint64) []byte { return refwire.AppendVarint(b, v&math.MaxUint32) },
		pw:     func(b []byte, v uint64) []byte { return protowire.AppendVarint(b, uint64(uint32(v))) },
		vclass: varintClass,
	},
	{
		name: "uint64", wt: refwire.WTVarint, bits: 64,
		norm: func(v uint64) uint64 { return v },
		enc:  func(e *csproto.Encoder, num int, v uint64) { e.EncodeUInt64(num, v) },
		dec: func(d *csproto.Decoder) (uint64, error) {
			return d.DecodeUInt64()
		},
		size:   func(v uint64) int { return csproto.SizeOfVarint(v) },
		ref:    func(b []byte, v uint64) []byte { return refwire.AppendVarint(b, v) },
		pw:     func(b []byte, v uint64) []byte { return protowire.AppendVarint(b, v) },
		vclass: varintClass,
	},
	{
		name: "sint32", wt: refwire.WTVarint, bits: 32,
		norm: func(v uint64) uint64 { return v & math.MaxUint32 },
		enc:  func(e *csproto.Encoder, num int, v uint64) { e.EncodeSInt32(num, int32(uint32(v))) },
		dec: func(d *csproto.Decoder) (uint64, error) {
			x, err := d.DecodeSInt32()
			return uint64(uint32(x)), err
		},
		size: func(v uint64) int { return csproto.SizeOfZigZag(uint64(int32(uint32(v)))) },
		ref:  func(b []byte, v uint64) []byte { return refwire.AppendVarint(b, refwire.ZigZag32(int32(uint32(v)))) },
		pw: func(b []byte, v uint64) []byte {
			return protowire.AppendVarint(b, protowire.EncodeZigZag(int64(int32(uint32(v)))))
		},
		vclass: func(v uint64) string {
			s := "pos"
			if int32(uint32(v)) < 0 {
				s = "neg"
			}
			return s + varintClass(refwire.ZigZag32(int32(uint32(v))))
		},
	},
	{
		name: "sint64", wt: refwire.WTVarint, bits: 64,
		norm: func(v uint64) uint64 { return v },
		enc:  func(e *csproto.Encoder, num int, v uint64) { e.EncodeSInt64(num, int64(v)) },
		dec: func(d *csproto.Decoder) (uint64, error) {
			x, err := d.DecodeSInt64()
			return uint64(x), err
		},
		size: func(v uint64) int { return csproto.SizeOfZigZag(uint64(int64(v))) },
		ref:  func(b []byte, v uint64) []byte { return refwire.AppendVarint(b, refwire.ZigZag64(int64(v))) },
		pw:   func(b []byte, v uint64) []byte { return protowire.AppendVarint(b, protowire.EncodeZigZag(int64(v))) },
		vclass: func(v uint64) string {
			s := "pos"
			if int64(v) < 0 {
				s = "neg"
			}
			return s + varintClass(refwire.ZigZag64(int64(v)))
		},
	},
	{
		name: "fixed32", wt: refwire.WTFixed32, bits: 32,
		norm: func(v uint64) uint64 { return v & math.MaxUint32 },
		enc:  func(e *csproto.Encoder, num int, v uint64) { e.EncodeFixed32(num, uint32(v)) },
		dec: func(d *csproto.Decoder) (uint64, error) {
			x, err := d.DecodeFixed32()
			return uint64(x), err
		},
		size:   func(v uint64) int { return 4 },
		ref:    func(b []byte, v uint64) []byte { return refwire.AppendFixed32(b, uint32(v)) },
		pw:     func(b []byte, v uint64) []byte { return protowire.AppendFixed32(b, uint32(v)) },
		vclass: func(v uint64) string { return "hi" + itoa(int(v>>28&0xf)) },
	},
	{
		// sfixed32 goes through the fixed32 methods with a cast, as the generated code does
		name: "sfixed32", wt: refwire.WTFixed32, bits: 32,
		norm: func(v uint64) uint64 { return v & math.MaxUint32 },
		enc:  func(e *csproto.Encoder, num int, v uint64) { e.EncodeFixed32(num, uint32(int32(uint32(v)))) },
		dec: func(d *csproto.Decoder) (uint64, error) {
			x, err := d.DecodeFixed32()
			return uint64(uint32(int32(x))), err
		},
		size:   func(v uint64) int { return 4 },
		ref:    func(b []byte, v uint64) []byte { return refwire.AppendFixed32(b, uint32(v)) },
		pw:     func(b []byte, v uint64) []byte { return protowire.AppendFixed32(b, uint32(v)) },
		vclass: func(v uint64) string { return "hi" + itoa(int(v>>28&0xf)) },
	},
	{
		name: "fixed64", wt: refwire.WTFixed64, bits: 64,
		norm: func(v uint64) uint64 { return v },
		enc:  func(e *csproto.Encoder, num int, v uint64) { e.EncodeFixed64(num, v) },
		dec: func(d *csproto.Decoder) (uint64, error) {
			return d.DecodeFixed64()
		},
		size:   func(v uint64) int { return 8 },
		ref:    func(b []byte, v uint64) []byte { return refwire.AppendFixed64(b, v) },
		pw:     func(b []byte, v uint64) []byte { return protowire.AppendFixed64(b, v) },
		vclass: func(v uint64) string { return "hi" + itoa(int(v>>60&0xf)) },
	},
	{
		name: "sfixed64", wt: refwire.WTFixed64, bits: 64,
		norm: func(v uint64) uint64 { return v },
		enc:  func(e *csproto.Encoder, num int, v uint64) { e.EncodeFixed64(num, uint64(int64(v))) },
		dec: func(d *csproto.Decoder) (uint64, error) {
			x, err := d.DecodeFixed64()
			return uint64(int64(x)), err
		},
		size:   func(v uint64) int { return 8 },
		ref:    func(b []byte, v uint64) []byte { return refwire.AppendFixed64(b, v) },
		pw:     func(b []byte, v uint64) []byte { return protowire.AppendFixed64(b, v) },
		vclass: func(v uint64) string { return "hi" + itoa(int(v>>60&0xf)) },
	},
	{
		name: "float", wt: refwire.WTFixed32, bits: 32,
		norm: func(v uint64) uint64 { return v & math.MaxUint32 },
		enc:  func(e *csproto.Encoder, num int, v uint64) { e.EncodeFloat32(num, math.Float32frombits(uint32(v))) },
		dec: func(d *csproto.Decoder) (uint64, error) {
			x, err := d.DecodeFloat32()
			return uint64(math.Float32bits(x)), err
		},
		size:   func(v uint64) int { return 4 },
		ref:    func(b []byte, v uint64) []byte { return refwire.AppendFixed32(b, uint32(v)) },
		pw:     func(b []byte, v uint64) []byte { return protowire.AppendFixed32(b, uint32(v)) },
		vclass: floatClass32,
	},
	{
		name: "double", wt: refwire.WTFixed64, bits: 64,
		norm: func(v uint64) uint64 { return v },
		enc:  func(e *csproto.Encoder, num int, v uint64) { e.EncodeFloat64(num, math.Float64frombits(v)) },
		dec: func(d *csproto.Decoder) (uint64, error) {
			x, err := d.DecodeFloat64()
			return math.Float64bits(x), err
		},
		size:   func(v uint64) int { return 8 },
		ref:    func(b []byte, v uint64) []byte { return refwire.AppendFixed64(b, v) },
		pw:     func(b []byte, v uint64) []byte { return protowire.AppendFixed64(b, v) },
		vclass: floatClass64,
	},
}

// packedDesc describes one packed list kind.
type packedDesc struct {
	name string
	elem *kindDesc // element kind (for norm, ref, size, vclass)
	enc  func(e *csproto.Encoder, num int, vs []uint64)
	dec  func(d *csproto.Decoder) ([]uint64, error)
}

func kindByName(n string) *kindDesc {
	for _, k := range scalarKinds {
		if k.name == n {
			return k
		}
	}
	panic("no kind " + n)
}

func conv[T any](vs []uint64, f func(uint64) T) []T {
	if vs == nil {
		return nil
	}
	out := make([]T, len(vs))
	for i, v := range vs {
		out[i] = f(v)
	}
	return out
}

func back[T any](xs []T, err error, f func(T) uint64) ([]uint64, error) {
	if xs == nil {
		return nil, err
	}
	out := make([]uint64, len(xs))
	for i, x := range xs {
		out[i] = f(x)
	}
	return out, err
}

var packedKinds = []*packedDesc{
	{name: "bool", elem: kindByName("bool"),
		enc: func(e *csproto.Encoder, num int, vs []uint64) {
			e.EncodePackedBool(num, conv(vs, func(v uint64) bool { return v != 0 }))
		},
		dec: func(d *csproto.Decoder) ([]uint64, error) {
			xs, err := d.DecodePackedBool()
			return back(xs, err, func(b bool) uint64 {
				if b {
					return 1
				}
				return 0
			})
		}},
	{name: "int32", elem: kindByName("int32"),
		enc: func(e *csproto.Encoder, num int, vs []uint64) {
			e.EncodePackedInt32(num, conv(vs, func(v uint64) int32 { return int32(uint32(v)) }))
		},
		dec: func(d *csproto.Decoder) ([]uint64, error) {
			xs, err := d.DecodePackedInt32()
			return back(xs, err, func(x int32) uint64 { return uint64(uint32(x)) })
		}},
	{name: "int64", elem: kindByName("int64"),
		enc: func(e *csproto.Encoder, num int, vs []uint64) {
			e.EncodePackedInt64(num, conv(vs, func(v uint64) int64 { return int64(v) }))
		},
		dec: func(d *csproto.Decoder) ([]uint64, error) {
			xs, err := d.DecodePackedInt64()
			return back(xs, err, func(x int64) uint64 { return uint64(x) })
		}},
	{name: "uint32", elem: kindByName("uint32"),
		enc: func(e *csproto.Encoder, num int, vs []uint64) {
			e.EncodePackedUInt32(num, conv(vs, func(v uint64) uint32 { return uint32(v) }))
		},
		dec: func(d *csproto.Decoder) ([]uint64, error) {
			xs, err := d.DecodePackedUint32()
			return back(xs, err, func(x uint32) uint64 { return uint64(x) })
		}},
	{name: "uint64", elem: kindByName("uint64"),
		enc: func(e *csproto.Encoder, num int, vs []uint64) {
			e.EncodePackedUInt64(num, conv(vs, func(v uint64) uint64 { return v }))
		},
		dec: func(d *csproto.Decoder) ([]uint64, error) {
			return d.DecodePackedUint64()
		}},
	{name: "sint32", elem: kindByName("sint32"),
		enc: func(e *csproto.Encoder, num int, vs []uint64) {
			e.EncodePackedSInt32(num, conv(vs, func(v uint64) int32 { return int32(uint32(v)) }))
		},
		dec: func(d *csproto.Decoder) ([]uint64, error) {
			xs, err := d.DecodePackedSint32()
			return back(xs, err, func(x int32) uint64 { return uint64(uint32(x)) })
		}},
	{name: "sint64", elem: kindByName("sint64"),
		enc: func(e *csproto.Encoder, num int, vs []uint64) {
			e.EncodePackedSInt64(num, conv(vs, func(v uint64) int64 { return int64(v) }))
		},
		dec: func(d *csproto.Decoder) ([]uint64, error) {
			xs, err := d.DecodePackedSint64()
			return back(xs, err, func(x int64) uint64 { return uint64(x) })
		}},
	{name: "fixed32", elem: kindByName("fixed32"),
		enc: func(e *csproto.Encoder, num int, vs []uint64) {
			e.EncodePackedFixed32(num, conv(vs, func(v uint64) uint32 { return uint32(v) }))
		},
		dec: func(d *csproto.Decoder) ([]uint64, error) {
			xs, err := d.DecodePackedFixed32()
			return back(xs, err, func(x uint32) uint64 { return uint64(x) })
		}},
	{name: "fixed64", elem: kindByName("fixed64"),
		enc: func(e *csproto.Encoder, num int, vs []uint64) {
			e.EncodePackedFixed64(num, conv(vs, func(v uint64) uint64 { return v }))
		},
		dec: func(d *csproto.Decoder) ([]uint64, error) {
			return d.DecodePackedFixed64()
		}},
	{name: "sfixed32", elem: kindByName("sfixed32"),
		enc: func(e *csproto.Encoder, num int, vs []uint64) {
			e.EncodePackedSFixed32(num, conv(vs, func(v uint64) int32 { return int32(uint32(v)) }))
		},
		dec: func(d *csproto.Decoder) ([]uint64, error) {
			xs, err := d.DecodePackedFixed32()
			return back(xs, err, func(x uint32) uint64 { return uint64(x) })
		}},
	{name: "sfixed64", elem: kindByName("sfixed64"),
		enc: func(e *csproto.Encoder, num int, vs []uint64) {
			e.EncodePackedSFixed64(num, conv(vs, func(v uint64) int64 { return int64(v) }))
		},
		dec: func(d *csproto.Decoder) ([]uint64, error) {
			return d.DecodePackedFixed64()
		}},
	{name: "float", elem: kindByName("float"),
		enc: func(e *csproto.Encoder, num int, vs []uint64) {
			e.EncodePackedFloat32(num, conv(vs, func(v uint64) float32 { return math.Float32frombits(uint32(v)) }))
		},
		dec: func(d *csproto.Decoder) ([]uint64, error) {
			xs, err := d.DecodePackedFloat32()
			return back(xs, err, func(x float32) uint64 { return uint64(math.Float32bits(x)) })
		}},
	{name: "double", elem: kindByName("double"),
		enc: func(e *csproto.Encoder, num int, vs []uint64) {
			e.EncodePackedFloat64(num, conv(vs, func(v uint64) float64 { return math.Float64frombits(v) }))
		},
		dec: func(d *csproto.Decoder) ([]uint64, error) {
			xs, err := d.DecodePackedFloat64()
			return back(xs, err, func(x float64) uint64 { return math.Float64bits(x) })
		}},
}
