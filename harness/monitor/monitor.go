// Package monitor holds the verdict plumbing shared by all workload binaries: a thread-safe result
// accumulator (evaluations, distinct case classes, samples, violations with signatures), a splittable
// PRNG keyed by strings, and helpers to run code under recover().
package monitor

import (
	"encoding/json"
	"fmt"
	"os"
	"runtime"
	"sort"
	"strings"
	"sync"
	"sync/atomic"
)

// Violation is one refuting observation, reduced to a signature.
type Violation struct {
	Sig     string `json:"sig"`
	What    string `json:"what"`
	Witness any    `json:"witness,omitempty"`
	Count   int64  `json:"count"`
}

// Result is what one workload process reports to the driver.
type Result struct {
	Property     string                `json:"property"`
	Tier         string                `json:"tier"`
	Seed         int64                 `json:"seed"`
	Shard        string                `json:"shard"`
	Evaluations  int64                 `json:"evaluations"`
	Classes      map[string]int64      `json:"classes"`
	Samples      []any                 `json:"samples"`
	Violations   map[string]*Violation `json:"violations"`
	Extras       map[string]int64      `json:"extras"`
	Notes        []string              `json:"notes,omitempty"`
	Inconclusive []string              `json:"inconclusive,omitempty"`

	mu         sync.Mutex
	maxSamples int
	evals      atomic.Int64
}

// New creates an empty result.
func New(property, tier string, seed int64, shard string) *Result {
	return &Result{
		Property:   property,
		Tier:       tier,
		Seed:       seed,
		Shard:      shard,
		Classes:    map[string]int64{},
		Violations: map[string]*Violation{},
		Extras:     map[string]int64{},
		maxSamples: 12,
	}
}

// Eval counts n oracle evaluations.
func (r *Result) Eval(n int64) { r.evals.Add(n) }

// Class counts one non-trivial case of the given class.
func (r *Result) Class(c string) {
	r.mu.Lock()
	r.Classes[c]++
	r.mu.Unlock()
}

// ClassN counts n non-trivial cases of the given class.
func (r *Result) ClassN(c string, n int64) {
	r.mu.Lock()
	r.Classes[c] += n
	r.mu.Unlock()
}

// MergeClasses adds a locally accumulated class map.
func (r *Result) MergeClasses(m map[string]int64) {
	r.mu.Lock()
	for k, v := range m {
		r.Classes[k] += v
	}
	r.mu.Unlock()
}

// Extra adds n to a named counter.
func (r *Result) Extra(name string, n int64) {
	r.mu.Lock()
	r.Extras[name] += n
	r.mu.Unlock()
}

// ExtraMax keeps the maximum of a named counter.
func (r *Result) ExtraMax(name string, n int64) {
	r.mu.Lock()
	if n > r.Extras[name] {
		r.Extras[name] = n
	}
	r.mu.Unlock()
}

// Sample records an actual case (bounded number kept).
func (r *Result) Sample(s any) {
	r.mu.Lock()
	if len(r.Samples) < r.maxSamples {
		r.Samples = append(r.Samples, s)
	}
	r.mu.Unlock()
}

// WantSample reports whether more samples are wanted (cheap check to avoid building them).
func (r *Result) WantSample() bool {
	r.mu.Lock()
	defer r.mu.Unlock()
	return len(r.Samples) < r.maxSamples
}

// Violate records a violation; the first witness per signature is kept.
func (r *Result) Violate(sig, what string, witness any) {
	r.mu.Lock()
	defer r.mu.Unlock()
	if v, ok := r.Violations[sig]; ok {
		v.Count++
		return
	}
	if len(r.Violations) >= 400 {
		// keep the file bounded; count overflow separately
		r.Extras["violations_dropped"]++
		return
	}
	r.Violations[sig] = &Violation{Sig: sig, What: what, Witness: witness, Count: 1}
}

// SortedViolations returns the violations recorded so far, sorted by signature.
func (r *Result) SortedViolations() []*Violation {
	r.mu.Lock()
	defer r.mu.Unlock()
	var out []*Violation
	for _, v := range r.Violations {
		out = append(out, v)
	}
	sort.Slice(out, func(i, j int) bool { return out[i].Sig < out[j].Sig })
	return out
}

// Note records a free-text note.
func (r *Result) Note(s string) {
	r.mu.Lock()
	if len(r.Notes) < 50 {
		r.Notes = append(r.Notes, s)
	}
	r.mu.Unlock()
}

// Inconc records a reason the run cannot give a verdict.
func (r *Result) Inconc(reason string) {
	r.mu.Lock()
	if len(r.Inconclusive) < 20 {
		r.Inconclusive = append(r.Inconclusive, reason)
	}
	r.mu.Unlock()
}

// Write stores the result as JSON.
func (r *Result) Write(path string) error {
	r.mu.Lock()
	defer r.mu.Unlock()
	r.Evaluations = r.evals.Load()
	b, err := json.MarshalIndent(r, "", " ")
	if err != nil {
		return err
	}
	tmp := path + ".tmp"
	if err := os.WriteFile(tmp, b, 0o644); err != nil {
		return err
	}
	return os.Rename(tmp, path)
}

// ---------------------------------------------------------------------------------------------
// panics

// PanicInfo describes a recovered panic.
type PanicInfo struct {
	Value string
	// Frame is the innermost non-runtime function of the code under test on the panicking stack.
	Frame string
	Stack string
}

// Try runs fn and returns a description of the panic it raised, if any.
func Try(fn func()) (pi *PanicInfo) {
	defer func() {
		if v := recover(); v != nil {
			buf := make([]byte, 16<<10)
			buf = buf[:runtime.Stack(buf, false)]
			pi = &PanicInfo{Value: fmt.Sprint(v), Stack: string(buf)}
			pi.Frame = innermostFrame(pi.Stack)
		}
	}()
	fn()
	return nil
}

// innermostFrame picks the first frame after the panic machinery that belongs to csproto (or, failing
// that, the first non-runtime frame).
func innermostFrame(stack string) string {
	lines := strings.Split(stack, "\n")
	seenPanic := false
	first := ""
	for _, l := range lines {
		if strings.HasPrefix(l, "\t") || l == "" {
			continue
		}
		if strings.HasPrefix(l, "panic(") || strings.HasPrefix(l, "runtime.") {
			if strings.HasPrefix(l, "panic(") {
				seenPanic = true
			}
			continue
		}
		if !seenPanic {
			continue
		}
		fn := l
		if i := strings.LastIndex(fn, "("); i > 0 {
			fn = fn[:i]
		}
		if strings.Contains(fn, "monitor.Try") {
			break
		}
		if first == "" {
			first = fn
		}
		if strings.Contains(fn, "CrowdStrike/csproto") {
			return shortFn(fn)
		}
	}
	return shortFn(first)
}

func shortFn(fn string) string {
	fn = strings.TrimPrefix(fn, "github.com/CrowdStrike/csproto/")
	fn = strings.TrimPrefix(fn, "github.com/CrowdStrike/")
	// strip generic instantiation noise
	if i := strings.Index(fn, "[...]"); i > 0 {
		fn = fn[:i] + fn[i+5:]
	}
	return fn
}

// PanicClass reduces a panic value to a stable class (numbers stripped).
func PanicClass(v string) string {
	var sb strings.Builder
	prevDigit := false
	for _, c := range v {
		if c >= '0' && c <= '9' {
			if !prevDigit {
				sb.WriteByte('N')
			}
			prevDigit = true
			continue
		}
		prevDigit = false
		sb.WriteRune(c)
	}
	s := sb.String()
	if len(s) > 90 {
		s = s[:90]
	}
	return s
}

// ---------------------------------------------------------------------------------------------
// PRNG: splitmix64, splittable by string keys so that case lists depend on (seed, key) only.

// Rand is a small deterministic PRNG.
type Rand struct{ s uint64 }

// NewRand derives a generator from a seed and a list of keys.
func NewRand(seed int64, keys ...any) *Rand {
	h := uint64(seed)*0x9E3779B97F4A7C15 + 0x1234567
	for _, k := range keys {
		for _, c := range []byte(fmt.Sprint(k)) {
			h = (h ^ uint64(c)) * 0x100000001B3
		}
		h ^= h >> 29
		h *= 0xBF58476D1CE4E5B9
	}
	return &Rand{s: h}
}

// Uint64 returns the next value.
func (r *Rand) Uint64() uint64 {
	r.s += 0x9E3779B97F4A7C15
	z := r.s
	z = (z ^ (z >> 30)) * 0xBF58476D1CE4E5B9
	z = (z ^ (z >> 27)) * 0x94D049BB133111EB
	return z ^ (z >> 31)
}

// Intn returns a value in [0,n).
func (r *Rand) Intn(n int) int {
	if n <= 0 {
		return 0
	}
	return int(r.Uint64() % uint64(n))
}

// Bool returns a coin flip.
func (r *Rand) Bool() bool { return r.Uint64()&1 == 1 }

// Chance returns true with probability num/den.
func (r *Rand) Chance(num, den int) bool { return r.Intn(den) < num }

// Bytes returns n pseudo-random bytes.
func (r *Rand) Bytes(n int) []byte {
	b := make([]byte, n)
	for i := 0; i < n; i += 8 {
		v := r.Uint64()
		for j := 0; j < 8 && i+j < n; j++ {
			b[i+j] = byte(v >> (8 * j))
		}
	}
	return b
}

// SortedKeys returns the sorted keys of a map.
func SortedKeys[V any](m map[string]V) []string {
	ks := make([]string, 0, len(m))
	for k := range m {
		ks = append(ks, k)
	}
	sort.Strings(ks)
	return ks
}

// ---------------------------------------------------------------------------------------------
// Progress: a memory-mapped scratch file into which a workload copies the descriptor of the case it is
// about to execute. The store is a plain memory write (no system call), yet the content survives a
// process-fatal error (checkptr, out of memory, stack overflow), so the driver can attribute the crash.

// Progress is the crash-surviving "current case" slot.
type Progress struct {
	mem []byte
}

// OpenProgress maps path (created, 64 KiB). An empty path gives a no-op slot.
func OpenProgress(path string) (*Progress, error) {
	if path == "" {
		return &Progress{}, nil
	}
	return openProgress(path)
}

// Set records the current case.
func (p *Progress) Set(parts ...string) {
	if p.mem == nil {
		return
	}
	off := 4
	for i, s := range parts {
		if i > 0 && off < len(p.mem) {
			p.mem[off] = ' '
			off++
		}
		off += copy(p.mem[off:], s)
	}
	n := off - 4
	p.mem[0], p.mem[1], p.mem[2], p.mem[3] = byte(n), byte(n>>8), byte(n>>16), byte(n>>24)
}

// Hex is a fast hex encoder for progress records (bounded length).
func Hex(b []byte) string {
	const digits = "0123456789abcdef"
	trunc := false
	if len(b) > 4096 {
		b = b[:4096]
		trunc = true
	}
	out := make([]byte, 0, len(b)*2+3)
	for _, c := range b {
		out = append(out, digits[c>>4], digits[c&15])
	}
	if trunc {
		out = append(out, '.', '.', '.')
	}
	return string(out)
}
