package monitor

import (
	"os"
	"syscall"
)

func openProgress(path string) (*Progress, error) {
	f, err := os.OpenFile(path, os.O_RDWR|os.O_CREATE|os.O_TRUNC, 0o644)
	if err != nil {
		return nil, err
	}
	defer f.Close()
	const size = 64 << 10
	if err := f.Truncate(size); err != nil {
		return nil, err
	}
	mem, err := syscall.Mmap(int(f.Fd()), 0, size, syscall.PROT_READ|syscall.PROT_WRITE, syscall.MAP_SHARED)
	if err != nil {
		return nil, err
	}
	return &Progress{mem: mem}, nil
}
