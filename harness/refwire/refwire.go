// Package refwire is a small protobuf wire-format codec written from the encoding specification
// (https://protobuf.dev/programming-guides/encoding/) for use as an independent reference. It shares no
// code with csproto and is cross-checked against google.golang.org/protobuf/encoding/protowire by the
// workloads that use it.
package refwire

import (
	"errors"
	"math"
)

// Wire types.
const (
	WTVarint  = 0
	WTFixed64 = 1
	WTLen     = 2
	WTSGroup  = 3
	WTEGroup  = 4
	WTFixed32 = 5
)

// MaxFieldNumber is 2^29-1.
const MaxFieldNumber = 1<<29 - 1

// AppendVarint appends the base-128 encoding of v (by repeated division, as in the specification).
func AppendVarint(b []byte, v uint64) []byte {
	for {
		d := byte(v % 128)
		v /= 128
		if v == 0 {
			return append(b, d)
		}
		b = append(b, d+128)
	}
}

// SizeVarint is the number of bytes AppendVarint produces.
func SizeVarint(v uint64) int {
	n := 1
	for v >= 128 {
		v /= 128
		n++
	}
	return n
}

// ZigZag32 maps a signed 32-bit value to its zig-zag form: (n << 1) ^ (n >> 31), arithmetic shift.
func ZigZag32(n int32) uint64 {
	if n >= 0 {
		return uint64(n) * 2
	}
	return uint64(-(int64(n)))*2 - 1
}

// ZigZag64 maps a signed 64-bit value to its zig-zag form.
func ZigZag64(n int64) uint64 {
	if n >= 0 {
		return uint64(n) * 2
	}
	// -(n+1)*2+1 avoids overflow for MinInt64
	return uint64(-(n+1))*2 + 1
}

// UnZigZag64 is the inverse of ZigZag64.
func UnZigZag64(u uint64) int64 {
	if u%2 == 0 {
		return int64(u / 2)
	}
	return -int64(u/2) - 1
}

// UnZigZag32 decodes a zig-zag value the way a 32-bit reader does (low 32 bits).
func UnZigZag32(u uint64) int32 {
	u &= math.MaxUint32
	if u%2 == 0 {
		return int32(u / 2)
	}
	return int32(-int64(u/2) - 1)
}

// AppendKey appends the field key (number<<3 | wire type).
func AppendKey(b []byte, num int, wt int) []byte {
	return AppendVarint(b, uint64(num)*8+uint64(wt))
}

// SizeKey is the encoded size of a field key.
func SizeKey(num int) int { return SizeVarint(uint64(num) * 8) }

// AppendFixed32 appends v little-endian.
func AppendFixed32(b []byte, v uint32) []byte {
	return append(b, byte(v), byte(v>>8), byte(v>>16), byte(v>>24))
}

// AppendFixed64 appends v little-endian.
func AppendFixed64(b []byte, v uint64) []byte {
	for i := 0; i < 8; i++ {
		b = append(b, byte(v>>(8*i)))
	}
	return b
}

// AppendLen appends a length prefix and the payload.
func AppendLen(b []byte, p []byte) []byte {
	b = AppendVarint(b, uint64(len(p)))
	return append(b, p...)
}

// Errors reported by the readers.
var (
	ErrTruncated = errors.New("refwire: truncated")
	ErrOverflow  = errors.New("refwire: varint overflows 64 bits")
	ErrBadKey    = errors.New("refwire: invalid field key")
	ErrGroup     = errors.New("refwire: group wire type")
	ErrBadWT     = errors.New("refwire: reserved wire type")
)

// ConsumeVarint reads a varint; n is the number of bytes used. Varints longer than 10 bytes, or
// 10-byte varints whose last byte exceeds 1, overflow. Over-long (non-minimal) encodings are accepted,
// as the specification allows readers to.
func ConsumeVarint(b []byte) (v uint64, n int, err error) {
	var shift uint
	for i := 0; i < len(b); i++ {
		c := b[i]
		if i == 9 && c > 1 {
			return 0, 0, ErrOverflow
		}
		v |= uint64(c&0x7f) << shift
		if c < 0x80 {
			return v, i + 1, nil
		}
		shift += 7
		if i == 9 {
			return 0, 0, ErrOverflow
		}
	}
	return 0, 0, ErrTruncated
}

// Field is one field occurrence found by Walk.
type Field struct {
	Num    int
	WT     int
	Start  int    // offset of the first key byte
	KeyLen int    // length of the key
	End    int    // offset one past the last payload byte
	Val    uint64 // varint / fixed value
	// Payload: for WTLen the content bytes (without the length prefix); for the other wire types the raw
	// value bytes (the varint bytes, the 4 or the 8 bytes).
	Payload []byte
}

// Walk splits b into its fields. It fails on truncated input, group wire types, reserved wire types
// and field numbers outside 1..2^29-1.
func Walk(b []byte) ([]Field, error) {
	var out []Field
	off := 0
	for off < len(b) {
		f, err := ReadField(b, off)
		if err != nil {
			return out, err
		}
		out = append(out, f)
		off = f.End
	}
	return out, nil
}

// ReadField reads the field starting at off.
func ReadField(b []byte, off int) (Field, error) {
	var f Field
	k, kn, err := ConsumeVarint(b[off:])
	if err != nil {
		return f, err
	}
	num := k >> 3
	if num < 1 || num > MaxFieldNumber {
		return f, ErrBadKey
	}
	f.Num = int(num)
	f.WT = int(k & 7)
	f.Start = off
	f.KeyLen = kn
	p := off + kn
	switch f.WT {
	case WTVarint:
		v, n, err := ConsumeVarint(b[p:])
		if err != nil {
			return f, err
		}
		f.Val = v
		f.Payload = b[p : p+n]
		f.End = p + n
	case WTFixed64:
		if len(b)-p < 8 {
			return f, ErrTruncated
		}
		for i := 0; i < 8; i++ {
			f.Val |= uint64(b[p+i]) << (8 * i)
		}
		f.Payload = b[p : p+8]
		f.End = p + 8
	case WTFixed32:
		if len(b)-p < 4 {
			return f, ErrTruncated
		}
		for i := 0; i < 4; i++ {
			f.Val |= uint64(b[p+i]) << (8 * i)
		}
		f.Payload = b[p : p+4]
		f.End = p + 4
	case WTLen:
		l, n, err := ConsumeVarint(b[p:])
		if err != nil {
			return f, err
		}
		if l > uint64(len(b)-p-n) {
			return f, ErrTruncated
		}
		f.Val = l
		f.Payload = b[p+n : p+n+int(l)]
		f.End = p + n + int(l)
	case WTSGroup, WTEGroup:
		return f, ErrGroup
	default:
		return f, ErrBadWT
	}
	return f, nil
}

// PackedVarints splits a packed run of varints.
func PackedVarints(p []byte) ([]uint64, error) {
	var out []uint64
	for len(p) > 0 {
		v, n, err := ConsumeVarint(p)
		if err != nil {
			return nil, err
		}
		out = append(out, v)
		p = p[n:]
	}
	return out, nil
}

// PackedFixed splits a packed run of fixed-width values (width 4 or 8).
func PackedFixed(p []byte, width int) ([]uint64, error) {
	if len(p)%width != 0 {
		return nil, ErrTruncated
	}
	var out []uint64
	for i := 0; i < len(p); i += width {
		var v uint64
		for j := 0; j < width; j++ {
			v |= uint64(p[i+j]) << (8 * j)
		}
		out = append(out, v)
	}
	return out, nil
}
