#!/bin/bash
# runs every check's quick (or $TIER) command on the current tree; prints one verdict line per check
cd "$(dirname "$0")/.."
for i in $(seq -w 1 20); do
  id=C$i
  s=$(date +%s)
  out=$(./check $id --tier ${TIER:-quick} 2>&1 | grep -v "^  built\|^  corpus\|^KNOWN-FINDING" | head -3 | cut -c1-200 | tr '\n' ' ')
  echo "$id [$(( $(date +%s)-s ))s] $out"
done
