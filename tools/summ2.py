#!/usr/bin/env python3
import json,glob,collections,re,sys
prop=sys.argv[1]
c=collections.Counter(); ex={}
for f in glob.glob('/verif/replays/%s/*.json'%prop):
    r=json.load(open(f))
    parts=r['sig'].split(':')
    flav=parts[1]
    what=re.sub(r"^.*?\): ?","",r['what'])
    what=re.sub(r"verif\.\S+","X",what)
    what=re.sub(r"field '?[\w\[\]\.]+'?","field F",what)
    what=re.sub(r"\d+","N",what)
    # key: family + kind@shape if diff else fail
    fam=parts[2]
    rest=':'.join(parts[3:])
    rest=re.sub(r'proto([23])/',r'p\1/',rest)
    if '@' in rest: key=fam+' '+rest.split(':')[0]
    else: key=fam+' '+rest.split(':')[0]+' '+what[:90]
    c[key]+=r.get('count',1); ex.setdefault(key,[what[:140],set()]); ex[key][1].add(flav)
for k,n in sorted(c.items()):
    print(n,k,'|',','.join(sorted(ex[k][1])),'|',ex[k][0] if '@' in k else '')
print(len(c),'distinct')
