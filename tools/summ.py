#!/usr/bin/env python3
"""debug helper: compact summary of replays/<prop>/*.json"""
import json,glob,collections,re,sys
prop=sys.argv[1]; width=int(sys.argv[2]) if len(sys.argv)>2 else 130
c=collections.Counter(); ex={}
for f in glob.glob('/verif/replays/%s/*.json'%prop):
    r=json.load(open(f))
    parts=r['sig'].split(':')
    flav=parts[1]; rest=':'.join(parts[2:])
    rest=re.sub(r'proto([23])/',r'p\1/',rest)
    if rest.count('+')>2: rest=rest.split(':')[0]+':<multi>'
    c[rest]+=r.get('count',1); ex.setdefault(rest,[r['what'],set()]); ex[rest][1].add(flav)
for k,n in sorted(c.items()):
    print(n,k,'|',','.join(sorted(ex[k][1])),'|',ex[k][0][-width:].replace('\n',' '))
print(len(c),'distinct')
