#!/bin/bash
# usage: tools/regress_seeds.sh [seed ids...]  (default: every directory under /verif/seeded)
# Re-runs every seeded change against the check(s) its meta.json names under caught_by (quick tier, scratch worktree
# /tmp/vseed, /repo itself untouched) and prints one line per seed: CAUGHT <id> <check> or MISSED <id> <checks tried>.
cd "$(dirname "$0")/.."
ids="$@"
[ -z "$ids" ] && ids=$(ls seeded)
for id in $ids; do
  meta=seeded/$id/meta.json
  [ -f $meta ] || continue
  if grep -q '"status": "retired' $meta; then echo "RETIRED $id"; continue; fi
  checks=$(python3 -c "import json,sys; print(' '.join(json.load(open('$meta'))['caught_by']))")
  verdict="MISSED $id $checks"
  for c in $checks; do
    out=$(SCRATCH=1 LINES_MAX=2 tools/try_seed.sh $id $c 2>&1)
    if echo "$out" | grep -q "^VIOLATION property=$c"; then verdict="CAUGHT $id $c"; break; fi
    if ! echo "$out" | grep -q "^HELD property=$c"; then verdict="INCONCLUSIVE $id $c $(echo "$out" | tail -1 | cut -c1-120)"; fi
    if echo "$out" | grep -q "patch does not apply"; then verdict="NOAPPLY $id"; break; fi
  done
  echo "$verdict"
done
