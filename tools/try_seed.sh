#!/bin/bash
# usage: tools/try_seed.sh <seed dir under /verif/seeded> <check ids...>
# applies the seeded patch to /repo, runs the given checks (quick), reverts the patch.
set -u
seed=$1; shift
cd /repo || exit 1
if ! git diff --quiet; then echo "/repo is dirty"; exit 1; fi
git apply /verif/seeded/$seed/patch.diff || { echo "patch does not apply"; exit 1; }
for c in "$@"; do
  (cd /verif && VERIF_SEED=${VERIF_SEED:-1} ./check $c --tier ${TIER:-quick} 2>&1 | grep -v "^  built\|^  corpus\|^KNOWN" | cut -c1-260 | head -${LINES_MAX:-8})
done
git -C /repo checkout -- .
git -C /repo status --short | head -3
