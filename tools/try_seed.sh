#!/bin/bash
# usage: tools/try_seed.sh <seed dir under /verif/seeded> <check ids...>
# Applies the seeded patch, runs the given checks (quick), reverts the patch.
# Default target is /repo itself (git -C /repo apply ...; checks; git -C /repo checkout -- .).
# With SCRATCH=1 the patch is applied to the scratch worktree /tmp/vseed and the checks run with VERIF_REPO=/tmp/vseed
# (used while a background run needs /repo untouched).
set -u
export VERIF_NO_EVIDENCE=1
seed=$1; shift
target=/repo
if [ "${SCRATCH:-0}" = 1 ]; then
  target=${SCRATCH_DIR:-/tmp/vseed}
  [ -d $target ] || git -C /repo worktree add -q --detach $target HEAD
  git -C $target checkout -q --detach ${BASE:-$(git -C /repo rev-parse HEAD)}
  export VERIF_REPO=$target
fi
cd $target || exit 1
if ! git diff --quiet; then echo "$target is dirty"; exit 1; fi
git apply /verif/seeded/$seed/patch.diff || { echo "patch does not apply"; exit 1; }
for c in "$@"; do
  (cd /verif && VERIF_SEED=${VERIF_SEED:-1} ./check $c --tier ${TIER:-quick} 2>&1 | grep -v "^  built\|^  corpus\|^KNOWN" | cut -c1-260 | head -${LINES_MAX:-8})
done
git -C $target checkout -- .
git -C $target status --short | head -3
