#!/bin/bash
# usage: demo.sh <id> ; runs the demo with and without patch in /tmp/vs
export GOFLAGS=-mod=mod GOPROXY=off GOSUMDB=off GOTOOLCHAIN=local
id=$1; S=/verif/seeded/$id; cd /tmp/vs || exit 1
git checkout -q -- . ; git clean -fdq
TAGS="seeddemo c04demo seedc18"
place() {
  pkgline=$(grep -m1 '^package ' $S/demo_test.go 2>/dev/null | awk '{print $2}')
  case "$id" in
    C05-b|C06-b|C07-b|C08-b|C09-b|C17-b) cp -r $S SEED; rm -f SEED/patch.diff; echo SEEDDIR;;
    C20-c|C20-d) cp $S/demo_test.go cmd/protodump/zz_seed_demo_test.go; echo ./cmd/protodump/;;
    C15-f) cp $S/demo_test.go lazyproto/seed_c15_demo_test.go; echo ./lazyproto/;;
    C16-f) cp $S/demo_test.go cmd/protoc-gen-fastmarshal/seed_demo_test.go; echo ./cmd/protoc-gen-fastmarshal/;;
    C20-f) cp $S/demo_test.go cmd/protodump/seed_demo_test.go; echo ./cmd/protodump/;;
    C12-g) cp $S/demo_run_test.go cmd/protoc-gen-fastmarshal/seed_c12_demo_test.go; echo ./cmd/protoc-gen-fastmarshal/;;
    C15-h) cp $S/demo_test.go lazyproto/seed_c15_demo_test.go; echo ./lazyproto/;;
    C16-h|C17-h) cp $S/demo_test.go cmd/protoc-gen-fastmarshal/seed_demo_test.go; mkdir -p SEED; echo ./cmd/protoc-gen-fastmarshal/;;
    C05-i) cp $S/demo_test.go cmd/protoc-gen-fastmarshal/seed_demo_test.go; mkdir -p SEED/testdata; echo ./cmd/protoc-gen-fastmarshal/;;
    C14-i) cp $S/demo_test.go lazyproto/seed_c14_demo_test.go; echo ./lazyproto/;;
    C19-i) cp $S/demo_test.go ./seed_c19_demo_test.go; echo .;;
    C20-i) cp $S/demo_test.go prototest/seed_c20_demo_test.go; echo ./prototest/;;
    C15-j) cp $S/demo_test.go lazyproto/seed_c15_demo_test.go; echo ./lazyproto/;;
    C20-j) cp $S/demo_test.go prototest/seeddemo_test.go; echo ./prototest/;;
    C07-e) cp -r $S SEED; rm -f SEED/patch.diff SEED/meta.json; mv SEED/demo_test.go cmd/protoc-gen-fastmarshal/seed_c07_demo_test.go; echo ./cmd/protoc-gen-fastmarshal/;;
    *-c|*-d|*-e|*-f|*-g|*-h|*-i|*-j) cp -r $S SEED; rm -f SEED/patch.diff SEED/meta.json; echo SEEDDIR;;
    *) case "$pkgline" in
         csproto_test) cp $S/demo_test.go ./zz_seed_demo_test.go; echo .;;
         lazyproto_test) cp $S/demo_test.go lazyproto/zz_seed_demo_test.go; echo ./lazyproto/;;
         prototest_test) cp $S/demo_test.go prototest/zz_seed_demo_test.go; echo ./prototest/;;
         main) cp $S/demo_test.go cmd/protoc-gen-fastmarshal/zz_seed_demo_test.go; echo ./cmd/protoc-gen-fastmarshal/;;
         *) echo "?? $pkgline";;
       esac;;
  esac
}
run() {
  where=$1
  if [ "$where" = SEEDDIR ]; then
    case "$id" in
      C06-b) go run ./SEED/demo 2>&1 | tail -3; return ${PIPESTATUS[0]};;
      C07-j) go run -tags "$TAGS" ./SEED/gen ./SEED/demo >/dev/null 2>&1; go test -count=1 -tags "$TAGS" ./SEED/demo 2>&1 | tail -3; return ${PIPESTATUS[0]};;
      C06-i) go test -count=1 -tags "$TAGS" ./SEED/demo/ 2>&1 | tail -3; return ${PIPESTATUS[0]};;
      C09-i|C15-i) go test -race -count=1 -tags "$TAGS" ./SEED/ 2>&1 | tail -3; return ${PIPESTATUS[0]};;
      C09-h|C12-h|C17-i) go run -tags "$TAGS" ./SEED/demo 2>&1 | tail -3; return ${PIPESTATUS[0]};;
      C07-d) go run -tags "$TAGS" ./SEED/demo 2>&1 | tail -3; return ${PIPESTATUS[0]};;
      C19-d) go test -count=1 -tags "$TAGS" ./SEED/demo/ 2>&1 | tail -3; return ${PIPESTATUS[0]};;
      *) go test -count=1 -tags "$TAGS" ./SEED/ 2>&1 | tail -3; return ${PIPESTATUS[0]};;
    esac
  else
    RACE=""; [ "$id" = C15-h ] && RACE="-race"; [ "$id" = C15-j ] && RACE="-race"
    go test $RACE -count=1 -tags "$TAGS" -run 'Seed|TestC14|TestC04' $where 2>&1 | tail -3; return ${PIPESTATUS[0]}
  fi
}
w=$(place)
echo "--- $id without patch ($w)"; run $w; a=$?
git apply $S/patch.diff
echo "--- $id WITH patch"; run $w; b=$?
echo "RESULT $id clean_exit=$a patched_exit=$b"
git checkout -q -- . ; git clean -fdq
