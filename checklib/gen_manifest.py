#!/usr/bin/env python3
"""Regenerates MANIFEST.json from checklib/props.py (run after editing the specs)."""
import json
import os
import subprocess
import sys

sys.path.insert(0, os.path.dirname(os.path.abspath(__file__)))
import props  # noqa: E402

VERIF = os.path.dirname(os.path.dirname(os.path.abspath(__file__)))
ALL = ["C%02d" % i for i in range(1, 21)]


def hook_commits():
    out = subprocess.run(["git", "-C", "/repo", "log", "--format=%H %s"], stdout=subprocess.PIPE, text=True).stdout
    return [l.split()[0] for l in out.splitlines() if l.split(" ", 1)[1].startswith("verif:")]


def main():
    checks = []
    for pid in ALL:
        if pid not in props.SPECS:
            continue
        s = props.SPECS[pid]
        checks.append({
            "property_id": pid,
            "quick_cmd": "./check %s --tier quick" % pid,
            "thorough_cmd": "./check %s --tier thorough" % pid,
            "evidence_file": "/verif/evidence/%s.json" % pid,
            "replay_cmd_template": "./check %s --replay {path}" % pid,
            "engine": s.get("engine", s.get("binary", "")),
            "level_claimed": {
                "category": "exploration",
                "text": s.get("level_text", "bounded exploration by executing the real code under generated, hostile and stress workloads while a reference-model monitor judges every call at the API boundary; held on the executions observed, nothing is claimed about inputs/schedules not produced"),
                "design_ref": "DESIGN.md section 5, " + pid,
            },
            "level_note": "; ".join(s.get("assumptions", [])),
            "technique": s.get("technique", "runtime monitoring: reference-model oracle over executions of the real code"),
        })
    na = [{"property_id": pid, "reason": props.NOT_APPLICABLE.get(pid, "check not built yet (work in progress); no claim is made for this property")}
          for pid in ALL if pid not in props.SPECS]
    man = {
        "version": 1,
        "setup_cmd": "./setup.sh",
        "hooks": {
            "guard": "verif",
            "enable": "go build -tags verif (the harness module replaces github.com/CrowdStrike/csproto by /repo)",
            "baseline_off_cmd": "cd /repo && GOFLAGS=-mod=mod go test -json -vet=off -count=1 -timeout 25m ./...",
            "source_commits": hook_commits(),
            "add_only": True,
        },
        "engines": props.ENGINES,
        "checks": checks,
        "not_applicable": na,
        "notes": "All checks are runtime monitoring of the real code (see DESIGN.md). Exit 0 held / 1 violation / 2 inconclusive. Known findings: known_findings.jsonl.",
    }
    json.dump(man, open(os.path.join(VERIF, "MANIFEST.json"), "w"), indent=1)
    print("MANIFEST.json: %d checks, %d not claimed" % (len(checks), len(na)))


if __name__ == "__main__":
    main()
