#!/usr/bin/env python3
"""Driver for the runtime-monitoring checks of csproto (see DESIGN.md).

usage: check <property id> [--tier quick|thorough] [--seed N] [--replay FILE] [--keep]

Builds the workload binaries from /repo's current working tree with the `verif` build tag, runs them as
child processes (one per shard) under a watchdog, merges what their monitors observed, matches violations
against known_findings.jsonl, writes evidence/<id>.json and replays/<id>/*.json.

exit 0: held on what was observed (KNOWN-FINDING lines may be printed)
exit 1: violation (VIOLATION property=<id> replay=<path>)
exit 2: inconclusive (INCONCLUSIVE property=<id> reason=...)
"""
import glob
import hashlib
import json
import os
import re
import shutil
import subprocess
import sys
import time

VERIF = os.path.dirname(os.path.dirname(os.path.abspath(__file__)))
REPO = os.environ.get("VERIF_REPO", "/repo")
HARNESS = os.path.join(VERIF, "harness")

GOENV = dict(os.environ)
GOENV.update({
    "GOFLAGS": "-mod=mod", "GOPROXY": "off", "GOSUMDB": "off", "GOTOOLCHAIN": "local",
    "CGO_ENABLED": os.environ.get("CGO_ENABLED", "1"),
})


def log(*a):
    print(*a, file=sys.stderr, flush=True)


def run(cmd, cwd=None, env=None, timeout=None, check=True, capture=True):
    p = subprocess.run(cmd, cwd=cwd, env=env or GOENV, timeout=timeout,
                       stdout=subprocess.PIPE if capture else None,
                       stderr=subprocess.STDOUT if capture else None, text=True)
    if check and p.returncode != 0:
        raise BuildError("command failed: %s\n%s" % (" ".join(cmd), (p.stdout or "")[-4000:]))
    return p


class BuildError(Exception):
    pass


class Inconclusive(Exception):
    pass


# ------------------------------------------------------------------------------------------------
# build

def go_build(pkg_dir, out, flavor, cwd):
    """flavor: 'plain' (checkptr instrumentation), 'race', 'asan', 'none'"""
    cmd = ["go", "build", "-tags", "verif", "-trimpath", "-o", out]
    if REPO != "/repo" and os.path.abspath(cwd) == os.path.abspath(HARNESS):
        # experiments against a scratch copy of the repository (VERIF_REPO): same harness module, other replace target
        alt = os.path.join(VERIF, ".work", "altmod-" + hashlib.sha1(REPO.encode()).hexdigest()[:8])
        os.makedirs(alt, exist_ok=True)
        mod = open(os.path.join(HARNESS, "go.mod")).read().replace("=> /repo", "=> " + REPO)
        open(os.path.join(alt, "go.mod"), "w").write(mod)
        shutil.copy(os.path.join(HARNESS, "go.sum"), os.path.join(alt, "go.sum"))
        cmd.append("-modfile=" + os.path.join(alt, "go.mod"))
    if flavor == "race":
        cmd.append("-race")
    elif flavor == "asan":
        cmd.append("-asan")
    elif flavor == "plain":
        cmd.append("-gcflags=all=-d=checkptr")
    cmd.append(pkg_dir)
    t0 = time.time()
    run(cmd, cwd=cwd)
    log("  built %s [%s] in %.1fs" % (os.path.basename(out), flavor, time.time() - t0))


# ------------------------------------------------------------------------------------------------
# children

def read_progress(path):
    try:
        d = open(path, "rb").read()
        n = int.from_bytes(d[:4], "little")
        return d[4:4 + n].decode("utf-8", "replace")
    except Exception:
        return ""


FATAL_RE = re.compile(r"^(fatal error: .*|panic: .*|runtime: out of memory.*|==\d+==ERROR: AddressSanitizer.*)$", re.M)
FRAME_RE = re.compile(r"^(github\.com/CrowdStrike/csproto[^\n]*?)\([^()\n]*\)$", re.M)


def crash_signature(prop, text):
    m = FATAL_RE.search(text)
    kind = m.group(1) if m else "died"
    kind = re.sub(r"\d+", "N", kind)[:80]
    f = FRAME_RE.search(text)
    frame = f.group(1).replace("github.com/CrowdStrike/csproto", "csproto") if f else "?"
    return "%s:fatal:%s:%s" % (prop, frame, kind)


def run_shards(spec, workdir, binary, prop, tier, seed, extra_args=None, env_extra=None):
    """Runs spec['shards'] child processes; returns list of per-shard result dicts, plus crash violations."""
    n = spec.get("shards", 16)
    if tier == "thorough":
        n = spec.get("shards_thorough", n)
    timeout_s = spec.get("timeout_thorough" if tier == "thorough" else "timeout_quick", 900)
    ulimit_kb = spec.get("ulimit_kb")
    procs = []
    for i in range(n):
        out = os.path.join(workdir, "result-%d.json" % i)
        prog = os.path.join(workdir, "progress-%d" % i)
        logf = os.path.join(workdir, "shard-%d.log" % i)
        args = [binary, "-prop", prop, "-tier", tier, "-seed", str(seed), "-shard", "%d/%d" % (i, n),
                "-out", out, "-progress", prog] + (extra_args or [])
        sh = ""
        if ulimit_kb:
            sh += "ulimit -v %d; " % ulimit_kb
        sh += "exec timeout -s QUIT %d " % timeout_s + " ".join("'%s'" % a for a in args)
        env = dict(GOENV)
        env.update(spec.get("env", {}))
        if env_extra:
            env.update(env_extra)
        if spec.get("flavor") == "race" or (env_extra or {}).get("_race"):
            env["GORACE"] = "halt_on_error=0 log_path=%s" % os.path.join(workdir, "race-%d" % i)
        env.pop("_race", None)
        f = open(logf, "w")
        p = subprocess.Popen(["bash", "-c", sh], stdout=f, stderr=subprocess.STDOUT, env=env, cwd=workdir)
        procs.append((i, p, out, prog, logf, f))
    results, crashes, inconc = [], [], []
    for i, p, out, prog, logf, f in procs:
        rc = p.wait()
        f.close()
        text = open(logf, errors="replace").read()
        if os.path.exists(out) and rc == 0:
            results.append(json.load(open(out)))
            continue
        if rc in (124, 131, 137) and "SIGQUIT" in text or rc == 124:
            inconc.append("shard %d hit the watchdog (%ds); last case: %s" % (i, timeout_s, read_progress(prog)[:200]))
            continue
        if FATAL_RE.search(text):
            sig = crash_signature(prop, text)
            crashes.append({"sig": sig, "what": "workload process died: " + (FATAL_RE.search(text).group(1)[:200]),
                            "count": 1,
                            "witness": {"last_case": read_progress(prog)[:8000], "shard": "%d/%d" % (i, n),
                                        "stderr_head": text[:3000]}})
            # a partial result may exist if the crash happened at exit; ignore it
            continue
        inconc.append("shard %d exited with status %d without a result: %s" % (i, rc, text[-400:]))
    return results, crashes, inconc


def race_reports(workdir):
    """Parses GORACE log files; returns list of (dedup key, report text)."""
    reps = {}
    for fn in sorted(os.listdir(workdir)):
        if not fn.startswith("race-"):
            continue
        text = open(os.path.join(workdir, fn), errors="replace").read()
        for block in text.split("=================="):
            if "WARNING: DATA RACE" not in block:
                continue
            # de-duplicate by the pair of innermost non-runtime functions of the two accesses
            tops = []
            for sec in re.split(r"\n(?=Previous |Goroutine )", block):
                if sec.lstrip().startswith(("Read at", "Write at", "Previous read", "Previous write", "WARNING")):
                    m = re.search(r"^\s+((?!runtime\.|sync\.|sync/atomic)[\w./()*\[\]-]+)\(\)", sec, re.M)
                    if m:
                        tops.append(re.sub(r"\.func\d+(\.\d+)*", "", m.group(1)))
            key = " <-> ".join(sorted(set(tops))[:2]) or "unparsed"
            reps.setdefault(key, block.strip()[:6000])
    return reps


# ------------------------------------------------------------------------------------------------
# known findings

def load_known():
    path = os.path.join(VERIF, "known_findings.jsonl")
    known = []
    if os.path.exists(path):
        for line in open(path):
            line = line.strip()
            if not line or line.startswith("#"):
                continue
            rec = json.loads(line)
            if "fixed" in rec:
                continue  # a fixed entry suppresses nothing
            known.append(rec)
    return known


def match_known(known, prop, sig):
    for k in known:
        if k.get("property") != prop:
            continue
        if "sig" in k and k["sig"] == sig:
            return k
        if "sig_re" in k and re.fullmatch(k["sig_re"], sig):
            return k
    return None


# ------------------------------------------------------------------------------------------------
# merge + verdict

def merge(results):
    m = {"evaluations": 0, "classes": {}, "samples": [], "violations": {}, "extras": {}, "notes": [], "inconclusive": []}
    for r in results:
        m["evaluations"] += r.get("evaluations", 0)
        for k, v in (r.get("classes") or {}).items():
            m["classes"][k] = m["classes"].get(k, 0) + v
        for s in r.get("samples") or []:
            if len(m["samples"]) < 12:
                m["samples"].append(s)
        for sig, v in (r.get("violations") or {}).items():
            if sig in m["violations"]:
                m["violations"][sig]["count"] += v["count"]
            else:
                m["violations"][sig] = v
        for k, v in (r.get("extras") or {}).items():
            if k.startswith("max_"):
                m["extras"][k] = max(m["extras"].get(k, 0), v)
            else:
                m["extras"][k] = m["extras"].get(k, 0) + v
        m["notes"] += r.get("notes") or []
        m["inconclusive"] += r.get("inconclusive") or []
    return m


def write_replay(prop, v, tier, seed, spec):
    d = os.path.join(VERIF, "replays", prop)
    os.makedirs(d, exist_ok=True)
    h = hashlib.sha1(v["sig"].encode()).hexdigest()[:12]
    path = os.path.join(d, h + ".json")
    rec = {"property": prop, "sig": v["sig"], "what": v["what"], "witness": v.get("witness"), "count": v.get("count", 1),
           "tier": tier, "seed": seed, "binary": spec.get("binary"), "flavor": spec.get("flavor", "plain")}
    json.dump(rec, open(path, "w"), indent=1)
    return path


def finish(prop, spec, tier, seed, merged, t0, extra_cov=None, extra_assume=None):
    """Applies known findings, floors, writes evidence, prints verdict lines, returns exit code."""
    known = load_known()
    unlisted, reproduced = [], {}
    # replays/<id>/ describes the latest run only
    for old in glob.glob(os.path.join(VERIF, "replays", prop, "*.json")):
        os.unlink(old)
    for sig, v in sorted(merged["violations"].items()):
        k = match_known(known, prop, sig)
        if k is not None:
            key = k.get("sig") or k.get("sig_re")
            reproduced.setdefault(key, {"what": k["what_fails"], "count": 0, "sigs": []})
            reproduced[key]["count"] += v.get("count", 1)
            if len(reproduced[key]["sigs"]) < 5:
                reproduced[key]["sigs"].append(sig)
        else:
            unlisted.append(v)
    distinct = len(merged["classes"])
    floor = spec.get("floor", 2)
    if tier == "thorough":
        floor = spec.get("floor_thorough", floor)
    inconc = list(merged["inconclusive"])
    if distinct < floor:
        inconc.append("only %d distinct non-trivial case classes observed (floor %d)" % (distinct, floor))
    for name, minimum in (spec.get("extra_floors") or {}).items():
        if merged["extras"].get(name, 0) < minimum:
            inconc.append("monitor counter %s=%d below its floor %d" % (name, merged["extras"].get(name, 0), minimum))
    cov = {
        "evaluations": int(merged["evaluations"]),
        "distinct_nontrivial": int(distinct),
        "rule": spec["rule"],
        "samples": merged["samples"] or ["(no sample recorded)"],
        "exhaustive": False,
        "explanation": spec.get("explanation", ""),
        "monitor_counters": merged["extras"],
        "class_examples": sorted(merged["classes"].items(), key=lambda kv: -kv[1])[:15],
        "known_findings_reproduced": [{"finding": k, **v} for k, v in reproduced.items()],
        "unlisted_violation_signatures": [v["sig"] for v in unlisted][:50],
        "inconclusive_reasons": inconc,
    }
    if extra_cov:
        cov.update(extra_cov)
    ev = {
        "property_id": prop, "tier": tier, "seed": int(seed), "level": "exploration", "coverage": cov,
        "assumptions": spec.get("assumptions", []) + (extra_assume or []),
        "wall_s": round(time.time() - t0, 2),
        "violations": len(unlisted),
    }
    evdir = os.path.join(VERIF, "evidence")
    if os.environ.get("VERIF_NO_EVIDENCE"):
        # experiments on deliberately broken trees (tools/try_seed.sh) must not overwrite the evidence of the real tree
        evdir = os.path.join(VERIF, ".work", "evidence-experiments")
    os.makedirs(evdir, exist_ok=True)
    tmp = os.path.join(evdir, prop + ".json.tmp")
    json.dump(ev, open(tmp, "w"), indent=1, sort_keys=False)
    os.replace(tmp, os.path.join(evdir, prop + ".json"))
    for key, v in reproduced.items():
        print("KNOWN-FINDING: property=%s %s" % (prop, v["what"]))
    code = 0
    if unlisted:
        for v in unlisted:
            path = write_replay(prop, v, tier, seed, spec)
            print("VIOLATION property=%s replay=%s" % (prop, path))
            print("  %s (x%d)\n  %s" % (v["sig"], v.get("count", 1), v["what"][:400]))
        code = 1
    elif inconc:
        for r in inconc[:10]:
            print("INCONCLUSIVE property=%s reason=%s" % (prop, r.replace("\n", " ")[:400]))
        code = 2
    else:
        print("HELD property=%s tier=%s seed=%s evaluations=%d distinct_classes=%d wall=%.1fs" % (
            prop, tier, seed, merged["evaluations"], distinct, time.time() - t0))
    return code
