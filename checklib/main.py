#!/usr/bin/env python3
import argparse
import os
import shutil
import sys
import time

sys.path.insert(0, os.path.dirname(os.path.abspath(__file__)))
import driver  # noqa: E402
import props  # noqa: E402


def main():
    ap = argparse.ArgumentParser()
    ap.add_argument("prop")
    ap.add_argument("--tier", default=os.environ.get("VERIF_TIER", "quick"), choices=["quick", "thorough"])
    ap.add_argument("--seed", type=int, default=int(os.environ.get("VERIF_SEED", "1")))
    ap.add_argument("--replay")
    ap.add_argument("--keep", action="store_true", help="keep the scratch directory")
    a = ap.parse_args()
    prop = a.prop.upper()
    if prop not in props.SPECS:
        print("unknown property", prop)
        return 3
    spec = props.SPECS[prop]
    workdir = os.path.join(driver.VERIF, ".work", prop)
    shutil.rmtree(workdir, ignore_errors=True)
    os.makedirs(workdir)
    t0 = time.time()
    try:
        if a.replay:
            code = props.replay(prop, spec, workdir, a.replay, a.seed)
        else:
            code = spec["run"](prop, spec, workdir, a.tier, a.seed, t0)
    except driver.BuildError as e:
        # a tree that does not build cannot be judged: inconclusive, never a silent pass
        print("INCONCLUSIVE property=%s reason=build failed: %s" % (prop, str(e).replace("\n", " | ")[:1500]))
        code = 2
    finally:
        if not a.keep:
            shutil.rmtree(workdir, ignore_errors=True)
    return code


if __name__ == "__main__":
    sys.exit(main())
