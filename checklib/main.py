#!/usr/bin/env python3
import argparse
import os
import shutil
import sys
import time

sys.path.insert(0, os.path.dirname(os.path.abspath(__file__)))
import driver  # noqa: E402
import props  # noqa: E402


def main():
    ap = argparse.ArgumentParser()
    ap.add_argument("prop")
    ap.add_argument("--tier", default=os.environ.get("VERIF_TIER", "quick"), choices=["quick", "thorough"])
    ap.add_argument("--seed", type=int, default=int(os.environ.get("VERIF_SEED", "1")))
    ap.add_argument("--replay")
    ap.add_argument("--keep", action="store_true", help="keep the scratch directory")
    a = ap.parse_args()
    prop = a.prop.upper()
    if prop not in props.SPECS:
        print("unknown property", prop)
        return 3
    spec = props.SPECS[prop]
    lock = cache_lock(shared=True)  # held while this check builds and runs; see trim_build_cache
    # VERIF_WORK: another scratch root, so that two runs of the same check (e.g. a seed regression and a manual try) do not collide
    workdir = os.path.join(os.environ.get("VERIF_WORK") or os.path.join(driver.VERIF, ".work"), prop)
    shutil.rmtree(workdir, ignore_errors=True)
    os.makedirs(workdir)
    t0 = time.time()
    try:
        if a.replay:
            code = props.replay(prop, spec, workdir, a.replay, a.seed)
        else:
            code = spec["run"](prop, spec, workdir, a.tier, a.seed, t0)
    except driver.BuildError as e:
        # a tree that does not build cannot be judged: inconclusive, never a silent pass
        print("INCONCLUSIVE property=%s reason=build failed: %s" % (prop, str(e).replace("\n", " | ")[:1500]))
        code = 2
    finally:
        if not a.keep:
            shutil.rmtree(workdir, ignore_errors=True)
        trim_build_cache(lock)
    return code


def cache_lock(shared):
    """Advisory lock next to the Go build cache: every running check holds it shared, the cache is only emptied under the
    exclusive lock, i.e. when no other check is building."""
    import fcntl
    import subprocess
    try:
        cache = subprocess.run(["go", "env", "GOCACHE"], capture_output=True, text=True, timeout=30).stdout.strip()
        if not cache:
            return None
        os.makedirs(cache, exist_ok=True)
        f = open(os.path.join(os.path.dirname(cache.rstrip("/")), ".verif-build-cache.lock"), "a+")
        fcntl.flock(f, fcntl.LOCK_SH if shared else fcntl.LOCK_EX)
        return f
    except Exception:
        return None


def trim_build_cache(lock, limit_mb=int(os.environ.get("VERIF_CACHE_LIMIT_MB", "25000"))):
    """Every run compiles a freshly generated corpus module (about 0.5 GB of build cache per check): empty the Go build cache when
    it has grown beyond limit_mb, so that repeated runs never fill the disk. The next run is then a cold build (1-2 min slower).
    Only done when no other check is running (exclusive lock, not waited for): emptying the cache under a running build breaks it."""
    import fcntl
    import subprocess
    try:
        if lock is None:
            return
        cache = subprocess.run(["go", "env", "GOCACHE"], capture_output=True, text=True, timeout=30).stdout.strip()
        if not cache or not os.path.isdir(cache):
            return
        mb = int(subprocess.run(["du", "-sm", cache], capture_output=True, text=True, timeout=120).stdout.split()[0])
        if mb <= limit_mb:
            return
        fcntl.flock(lock, fcntl.LOCK_UN)
        try:
            fcntl.flock(lock, fcntl.LOCK_EX | fcntl.LOCK_NB)
        except OSError:
            return  # another check is running; it, or the next run, will do it
        subprocess.run(["go", "clean", "-cache"], timeout=600)
    except Exception:
        pass
    finally:
        try:
            lock.close()
        except Exception:
            pass


if __name__ == "__main__":
    sys.exit(main())
