"""Per-property check specifications (see DESIGN.md section 5)."""
import json
import os
import subprocess

import driver

TRUST_WIRE = [
    "Go toolchain 1.23.5 (compiler, runtime, checkptr instrumentation)",
    "google.golang.org/protobuf/encoding/protowire 1.36.4 and the spec-derived refwire codec are both used as references; a disagreement between them makes the run inconclusive",
    "verif-tagged accessor (*Encoder).VerifOffset reports the encoder's real cursor",
]


def simple_run(prop, spec, workdir, tier, seed, t0):
    """Build one workload binary in the spec's flavor, run its shards, merge, verdict."""
    binary = os.path.join(workdir, spec["binary"])
    driver.go_build("./cmd/" + spec["binary"], binary, spec.get("flavor", "plain"), driver.HARNESS)
    results, crashes, inconc = driver.run_shards(spec, workdir, binary, prop, tier, seed)
    merged = driver.merge(results)
    for c in crashes:
        merged["violations"].setdefault(c["sig"], c)
    merged["inconclusive"] += inconc
    extra_cov = {}
    if spec.get("flavor") == "race":
        reps = driver.race_reports(workdir)
        extra_cov["race_reports"] = len(reps)
        for key, text in reps.items():
            merged["violations"]["%s:race:%s" % (prop, key)] = {
                "sig": "%s:race:%s" % (prop, key), "what": "data race reported by the Go race detector: " + key,
                "count": 1, "witness": {"report": text}}
    return driver.finish(prop, spec, tier, seed, merged, t0, extra_cov=extra_cov)


def replay(prop, spec, workdir, path, seed):
    rec = json.load(open(path))
    binary = os.path.join(workdir, rec.get("binary") or spec["binary"])
    driver.go_build("./cmd/" + os.path.basename(binary), binary, rec.get("flavor") or spec.get("flavor", "plain"), driver.HARNESS)
    out = os.path.join(workdir, "replay-result.json")
    p = subprocess.run([binary, "-prop", prop, "-replay", os.path.abspath(path), "-out", out], env=driver.GOENV,
                       cwd=workdir, stdout=subprocess.PIPE, stderr=subprocess.STDOUT, text=True, timeout=1800)
    print(p.stdout[-6000:])
    if p.returncode != 0:
        print("replay: workload process died (status %d) - the violation reproduces as a crash" % p.returncode)
        return 1
    r = json.load(open(out))
    return 1 if r.get("violations") else 0


SPECS = {
    "C01": {
        "binary": "wl-wire", "flavor": "plain", "shards": 16, "run": simple_run,
        "timeout_quick": 600, "timeout_thorough": 3000, "ulimit_kb": 6 << 20,
        "floor": 200,
        "rule": ("one case = (kind, field number, value or list, decoder mode) encoded with csproto.Encoder into a buffer of exactly "
                 "the size predicted by SizeOfTagKey/SizeOfVarint/SizeOfZigZag (canary-framed, filled 0xAA then 0x55) and read back "
                 "with csproto.Decoder; non-trivial when the field encodes to >=2 bytes; distinct by (kind, value class = varint "
                 "length/sign/float class/list shape, key length and >=2^26 flag, mode)"),
        "explanation": ("quick: every boundary value (2^k, 2^k+-1 and negatives, NaN payloads, +-0, inf) x 14 field numbers spanning key "
                        "lengths 1-5 x both modes for 13 scalar kinds and 13 packed kinds, strings/bytes at length boundaries, seeded random "
                        "values over the whole field-number range, strided field-number sweep. thorough adds the complete 2^32 value sweep "
                        "of the 32-bit kinds (int32,uint32,sint32,fixed32,sfixed32,float; enum shares int32's code), all 2^29-1 field numbers "
                        "x 4 wire types through EncodeTag/SizeOfTagKey/DecodeTag, and 64x2x4096 bit-length-class values per 64-bit kind."),
        "assumptions": TRUST_WIRE + ["64-bit value domains and the key x value cross product are sampled, not enumerated"],
    },
    "C02": {
        "binary": "wl-wire", "flavor": "plain", "shards": 16, "run": simple_run,
        "timeout_quick": 600, "timeout_thorough": 3000, "ulimit_kb": 6 << 20,
        "floor": 200,
        "rule": ("one case = (kind, field number, value) whose csproto encoding is compared byte-for-byte with protowire and refwire and whose "
                 "reference encoding is decoded by csproto.Decoder; or one well-formed field sequence walked with DecodeTag+Skip in safe and fast "
                 "mode (each returned slice must equal the reference walker's field extent, concatenation must reproduce the input); "
                 "distinct by (kind, value class, key class, mode) resp. (wire-type set, key-length set, mode) for sequences with >=3 fields and >=2 wire types"),
        "explanation": "same value/field-number sets as C01 (thorough: the 2^32 sweeps compare bytes with the references in the same loop); Skip: 5 000 (quick) / 500 000 (thorough) seeded sequences of 1-40 fields incl. numbers >=2^26, nested payloads and 70 000-byte payloads",
        "assumptions": TRUST_WIRE + ["only encodings a conforming writer emits are fed to the decoder here (minimal varints, four wire types)"],
    },
    "C03": {
        "binary": "wl-wire", "flavor": "plain", "shards": 16, "run": simple_run,
        "timeout_quick": 600, "timeout_thorough": 3000, "ulimit_kb": 4 << 20,
        "floor": 500,
        "rule": ("one case = one Decoder method call at a cursor position of an arbitrary byte string (capacity-limited, canary-framed), judged against "
                 "the reference item extent: no panic, cursor in [0,len], success => advance == item length and value/element count == reference, "
                 "truncated/unterminated/over-declared item => error, input unmodified, heap allocation <= 64*len+64KiB for inflated-length inputs; "
                 "non-trivial when the cursor is not at the end; distinct by (method, outcome class, mode, remaining-length class)"),
        "explanation": ("(a) all byte strings over a 13-symbol wire-significant alphabet up to length 4 (quick) / 6 (thorough), at every start offset, "
                        "for ~50 methods (26 Decode*/DecodePacked*/DecodeNested + 24 Skip(tag,wiretype) variants) in both modes; (b) seeded call sequences "
                        "(<=8 calls incl. Seek with all whences and extreme offsets, Reset, SetMode, More) over random, truncated and mutated inputs with a shadow cursor; "
                        "(c) inflated length prefixes up to 2^64-1, over-long varints, truncated packed runs, with per-call allocation measurement via runtime/metrics; "
                        "children run under ulimit -v 4GiB so an allocation bomb is an attributable crash"),
        "assumptions": TRUST_WIRE + ["a clean checkptr run is not a proof of memory safety"],
    },
}

TRUST_LAZY = [
    "Go toolchain 1.23.5 (compiler, runtime, race detector, checkptr)",
    "refwire (spec-derived field walker) is the only parser on the oracle side; the oracle never calls csproto or lazyproto",
]

SPECS.update({
    "C13": {
        "binary": "wl-lazy", "flavor": "plain", "shards": 16, "run": simple_run,
        "timeout_quick": 600, "timeout_thorough": 3000, "ulimit_kb": 6 << 20,
        "floor": 1000,
        "rule": ("one case = one accessor call (26 typed accessors, each through DecodeResult and through FieldData, plus FieldData/NestedResult/"
                 "NestedResults/Range/multi-element paths) on the lazy decode of a schema-free well-formed message under a random definition, judged "
                 "against a table computed from a refwire walk of the same bytes (last occurrence / all occurrences with packed runs expanded / "
                 "not-found / not-defined / wire-type mismatch / overflow); non-trivial when the message has >=2 fields and the tag is present; "
                 "distinct by (accessor, wire type of the field, outcome class, mode, entry point, nesting depth)"),
        "explanation": "messages: 1-12 fields, nesting <=3, all four wire types, repeated and packed runs, empty strings and empty nested messages, field numbers up to 2^29-1, every 50th case the empty message; definitions over present/absent/nested tags with negative twins; entry points Decode function, Decoder safe, Decoder fast; three mutated/random byte strings per message are decoded and every accessor called with only 'no panic' judged",
        "assumptions": TRUST_LAZY + ["a packed run containing a 10-byte varint with overflow bits is outside the precondition and not judged"],
    },
    "C14": {
        "binary": "wl-lazy", "flavor": "plain", "shards": 16, "run": simple_run,
        "timeout_quick": 900, "timeout_thorough": 3400, "ulimit_kb": 8 << 20,
        "floor": 100, "extra_floors": {"recycled_handouts": 200},
        "rule": ("one case = one operation of a seeded sequence (decode / read everything incl. nested results / close, up to 4 results alive, closes in "
                 "any order) on one Decoder under an option combination {safe,fast} x max buffer {none,0,1,2,1024} x filter {none,halve,zero,negative}; "
                 "reads are judged by the C13 oracle for that result's own input; values handed out in safe mode are re-checked after Close and later decodes; "
                 "the verif hook checks that every pool hand-out is empty (no field data, no closers); non-trivial when a recycled object has been handed "
                 "out in the process; distinct by (option combination, operation bigram)"),
        "explanation": "GC is disabled inside the workload (explicit GC every 200 sequences) so that sync.Pool reuse really happens; evidence reports pool_handouts and recycled_handouts as seen by the hook",
        "assumptions": TRUST_LAZY + ["hook lazyproto.VerifHandOut reports the real internal state at hand-out"],
    },
    "C15": {
        "binary": "wl-lazy", "flavor": "race", "shards": 8, "run": simple_run,
        "timeout_quick": 900, "timeout_thorough": 3400,
        "floor": 4, "extra_floors": {"cross_goroutine_handovers": 100},
        "technique": "runtime monitoring: Go race detector + per-goroutine reference-model oracle under injected yields",
        "rule": ("one case = one decode/read-all/close iteration of one goroutine on a Decoder shared by G goroutines (G in 2..64, GOMAXPROCS in 1,2,16, "
                 "safe and fast mode, with and without max buffer), each goroutine on its own marked inputs, every accessor judged by the C13 oracle for "
                 "that goroutine's input; binary built with -race, reports parsed from GORACE logs; seeded yields/sleeps at four verif points; "
                 "non-trivial when the result object came from another goroutine; distinct classes = (G, GOMAXPROCS, mode, max buffer) configurations; "
                 "interleaving diversity reported as distinct 4-grams of the boundary event order"),
        "explanation": "evidence counters: cross_goroutine_handovers, result_object_reuses, distinct_boundary_4grams, per-site hook hits, race_reports",
        "assumptions": TRUST_LAZY + ["the race detector only sees races on executions that happened"],
    },
})

NOT_APPLICABLE = {}

ENGINES = [
    {"name": "wl-wire", "path": "harness/cmd/wl-wire", "serves_properties": ["C01", "C02", "C03", "C20"],
     "kind_free_text": "workload binary driving csproto.Encoder/Decoder and prototest against refwire+protowire oracles"},
    {"name": "wl-lazy", "path": "harness/cmd/wl-lazy", "serves_properties": ["C10", "C13", "C14", "C15"],
     "kind_free_text": "workload binary driving lazyproto (Decode function and Decoder object) against a refwire-derived accessor oracle; pool hand-out hook monitor; shared-decoder stress under -race"},
    {"name": "refwire", "path": "harness/refwire", "serves_properties": ["C01", "C02", "C03", "C13", "C20"],
     "kind_free_text": "spec-derived independent wire codec used as reference"},
    {"name": "driver", "path": "checklib", "serves_properties": [],
     "kind_free_text": "builds from /repo's working tree with -tags verif, runs child-process shards under watchdog/ulimit, parses race logs, matches known findings, writes evidence and replays"},
]
