"""Per-property check specifications (see DESIGN.md section 5)."""
import json
import os
import subprocess

import driver

TRUST_WIRE = [
    "Go toolchain 1.23.5 (compiler, runtime, checkptr instrumentation)",
    "google.golang.org/protobuf/encoding/protowire 1.36.4 and the spec-derived refwire codec are both used as references; a disagreement between them makes the run inconclusive",
    "verif-tagged accessor (*Encoder).VerifOffset reports the encoder's real cursor",
]


def simple_run(prop, spec, workdir, tier, seed, t0):
    """Build one workload binary in the spec's flavor, run its shards, merge, verdict."""
    binary = os.path.join(workdir, spec["binary"])
    driver.go_build("./cmd/" + spec["binary"], binary, spec.get("flavor", "plain"), driver.HARNESS)
    results, crashes, inconc = driver.run_shards(spec, workdir, binary, prop, tier, seed)
    merged = driver.merge(results)
    for c in crashes:
        merged["violations"].setdefault(c["sig"], c)
    merged["inconclusive"] += inconc
    extra_cov = {}
    if spec.get("flavor") == "race":
        reps = driver.race_reports(workdir)
        extra_cov["race_reports"] = len(reps)
        for key, text in reps.items():
            merged["violations"]["%s:race:%s" % (prop, key)] = {
                "sig": "%s:race:%s" % (prop, key), "what": "data race reported by the Go race detector: " + key,
                "count": 1, "witness": {"report": text}}
    return driver.finish(prop, spec, tier, seed, merged, t0, extra_cov=extra_cov)


def replay(prop, spec, workdir, path, seed):
    rec = json.load(open(path))
    binary = os.path.join(workdir, rec.get("binary") or spec["binary"])
    flavor = rec.get("flavor") or spec.get("flavor", "plain")
    if os.path.basename(binary) == "wl-gen":
        # the generated corpus depends on tier and seed: regenerate the one the violation was found with
        try:
            binary, _ = build_corpus(workdir, rec.get("tier", "quick"), int(rec.get("seed", seed)), spec.get("corpus_mode", "behave"), flavor)
        except driver.Inconclusive as e:
            print("INCONCLUSIVE property=%s reason=%s" % (prop, str(e).replace("\n", " | ")[:1500]))
            return 2
    else:
        driver.go_build("./cmd/" + os.path.basename(binary), binary, flavor, driver.HARNESS)
    out = os.path.join(workdir, "replay-result.json")
    p = subprocess.run([binary, "-prop", prop, "-replay", os.path.abspath(path), "-out", out], env=driver.GOENV,
                       cwd=workdir, stdout=subprocess.PIPE, stderr=subprocess.STDOUT, text=True, timeout=1800)
    print(p.stdout[-6000:])
    if p.returncode != 0:
        print("replay: workload process died (status %d) - the violation reproduces as a crash" % p.returncode)
        return 1
    r = json.load(open(out))
    return 1 if r.get("violations") else 0


SPECS = {
    "C01": {
        "binary": "wl-wire", "flavor": "plain", "shards": 16, "run": simple_run,
        "timeout_quick": 600, "timeout_thorough": 6000, "ulimit_kb": 6 << 20,
        "floor": 200,
        "rule": ("one case = (kind, field number, value or list, decoder mode) encoded with csproto.Encoder into a buffer of exactly "
                 "the size predicted by SizeOfTagKey/SizeOfVarint/SizeOfZigZag (canary-framed, filled 0xAA then 0x55) and read back "
                 "with csproto.Decoder; non-trivial when the field encodes to >=2 bytes; distinct by (kind, value class = varint "
                 "length/sign/float class/list shape, key length and >=2^26 flag, mode)"),
        "explanation": ("quick: every boundary value (2^k, 2^k+-1 and negatives, NaN payloads, +-0, inf) x 14 field numbers spanning key "
                        "lengths 1-5 x both modes for 13 scalar kinds and 13 packed kinds, strings/bytes at length boundaries, seeded random "
                        "values over the whole field-number range, strided field-number sweep. thorough adds the complete 2^32 value sweep "
                        "of the 32-bit kinds (int32,uint32,sint32,fixed32,sfixed32,float; enum shares int32's code), all 2^29-1 field numbers "
                        "x 4 wire types through EncodeTag/SizeOfTagKey/DecodeTag, and 64x2x4096 bit-length-class values per 64-bit kind."),
        "assumptions": TRUST_WIRE + ["64-bit value domains and the key x value cross product are sampled, not enumerated"],
    },
    "C02": {
        "binary": "wl-wire", "flavor": "plain", "shards": 16, "run": simple_run,
        "timeout_quick": 600, "timeout_thorough": 6000, "ulimit_kb": 6 << 20,
        "floor": 200,
        "rule": ("one case = (kind, field number, value) whose csproto encoding is compared byte-for-byte with protowire and refwire and whose "
                 "reference encoding is decoded by csproto.Decoder; or one well-formed field sequence walked with DecodeTag+Skip in safe and fast "
                 "mode (each returned slice must equal the reference walker's field extent, concatenation must reproduce the input); "
                 "distinct by (kind, value class, key class, mode) resp. (wire-type set, key-length set, mode) for sequences with >=3 fields and >=2 wire types"),
        "explanation": "same value/field-number sets as C01 (thorough: the 2^32 sweeps compare bytes with the references in the same loop); Skip: 5 000 (quick) / 500 000 (thorough) seeded sequences of 1-40 fields incl. numbers >=2^26, nested payloads and 70 000-byte payloads; every scalar and packed field is decoded a second time with 17 bytes of other fields behind it in the buffer; Skip is also exercised by Seek to a field's payload followed by Skip, in an order unrelated to the field order; one length prefix in six and one varint value in eight of the Skip sequences is written with redundant continuation bytes (valid, as writers that back-fill lengths emit them)",
        "assumptions": TRUST_WIRE + ["only encodings a conforming writer emits are fed to the decoder here (four wire types; keys always minimal, values and length prefixes minimal except in the Skip sequences)"],
    },
    "C03": {
        "binary": "wl-wire", "flavor": "plain", "shards": 16, "run": simple_run,
        "timeout_quick": 600, "timeout_thorough": 3000, "ulimit_kb": 4 << 20,
        "floor": 500,
        "rule": ("one case = one Decoder method call at a cursor position of an arbitrary byte string (capacity-limited, canary-framed), judged against "
                 "the reference item extent: no panic, cursor in [0,len], success => advance == item length and value/element count == reference, "
                 "truncated/unterminated/over-declared item => error, input unmodified, heap allocation <= 256*len+256KiB (minimum of five measurements) for inflated-length inputs; "
                 "non-trivial when the cursor is not at the end; distinct by (method, outcome class, mode, remaining-length class)"),
        "explanation": ("(a) all byte strings over a 13-symbol wire-significant alphabet up to length 4 (quick) / 6 (thorough), at every start offset, "
                        "for ~50 methods (26 Decode*/DecodePacked*/DecodeNested + 24 Skip(tag,wiretype) variants) in both modes; (b) seeded call sequences "
                        "(<=8 calls incl. Seek with all whences and extreme offsets, Reset, SetMode, More) over random, truncated and mutated inputs with a shadow cursor; "
                        "(c) inflated length prefixes up to 2^64-1, over-long varints, truncated packed runs, with per-call allocation measurement via runtime/metrics; "
                        "children run under ulimit -v 4GiB so an allocation bomb is an attributable crash"),
        "assumptions": TRUST_WIRE + ["a clean checkptr run is not a proof of memory safety"],
    },
}

TRUST_LAZY = [
    "Go toolchain 1.23.5 (compiler, runtime, race detector, checkptr)",
    "refwire (spec-derived field walker) is the only parser on the oracle side; the oracle never calls csproto or lazyproto",
]

SPECS.update({
    "C13": {
        "binary": "wl-lazy", "flavor": "plain", "shards": 16, "run": simple_run,
        "timeout_quick": 600, "timeout_thorough": 3000, "ulimit_kb": 6 << 20,
        "floor": 1000,
        "rule": ("one case = one accessor call (26 typed accessors, each through DecodeResult and through FieldData, plus FieldData/NestedResult/"
                 "NestedResults/Range/multi-element paths) on the lazy decode of a schema-free well-formed message under a random definition, judged "
                 "against a table computed from a refwire walk of the same bytes (last occurrence / all occurrences with packed runs expanded / "
                 "not-found / not-defined / wire-type mismatch / overflow); non-trivial when the message has >=2 fields and the tag is present; "
                 "distinct by (accessor, wire type of the field, outcome class, mode, entry point, nesting depth)"),
        "explanation": "messages: 1-12 fields, nesting <=3, all four wire types, repeated and packed runs, empty strings and empty nested messages, field numbers up to 2^29-1, every 50th case the empty message; definitions over present/absent/nested tags with negative twins; entry points Decode function, Decoder safe, Decoder fast; three mutated/random byte strings per message are decoded and every accessor called with only 'no panic' judged; every 3rd case additionally keeps four results of one Decoder alive together (interleaved reads, sibling Close, recycled decode) and re-reads nested results handed out earlier; the one-Decoder scenario rotates WithMaxBufferSize(-1,0,1,2) and decodes again after everything was closed; every 4th case changes the SAME Def object in place (tag swapped, nested definition extended) and calls the Decode function again; nested results obtained from NestedResults are closed by the caller in half of the cases (must disturb neither the parent nor later decodes with the same decoder); every other input is placed with spare capacity behind it (cap > len, as the payload of a nested field or a pooled buffer has): reading behind len() does not panic there and shows as success on a truncated item or a cursor beyond the input; a length prefix that is a 10-byte varint with bits beyond 64 may be refused (as protowire does) or read with the excess bits dropped (as csproto reads every varint) - then the cursor must be exactly behind the item of that length",
        "assumptions": TRUST_LAZY + ["a packed run containing a 10-byte varint with overflow bits is outside the precondition and not judged"],
    },
    "C14": {
        "binary": "wl-lazy", "flavor": "plain", "shards": 16, "run": simple_run,
        "timeout_quick": 900, "timeout_thorough": 3400, "ulimit_kb": 8 << 20,
        "floor": 100, "extra_floors": {"recycled_handouts": 200},
        "rule": ("one case = one operation of a seeded sequence (decode / read everything incl. nested results / close, up to 4 results alive, closes in "
                 "any order) on one Decoder under an option combination {safe,fast} x max buffer {none,0,1,2,1024} x filter {none,halve,zero,negative}; "
                 "reads are judged by the C13 oracle for that result's own input; values handed out in safe mode are re-checked after Close and later decodes; "
                 "the verif hook checks that every pool hand-out is empty (no field data, no closers); non-trivial when a recycled object has been handed "
                 "out in the process; distinct by (option combination, operation bigram)"),
        "explanation": "GC is disabled inside the workload (explicit GC every 200 sequences) so that sync.Pool reuse really happens; evidence reports pool_handouts and recycled_handouts as seen by the hook; the wire type of declared tag 5 and of nested tag 2 changes from input to input of one decoder",
        "assumptions": TRUST_LAZY + ["hook lazyproto.VerifHandOut reports the real internal state at hand-out"],
    },
    "C15": {
        "binary": "wl-lazy", "flavor": "race", "shards": 8, "run": simple_run,
        "timeout_quick": 900, "timeout_thorough": 3400,
        "floor": 4, "extra_floors": {"cross_goroutine_handovers": 100},
        "technique": "runtime monitoring: Go race detector + per-goroutine reference-model oracle under injected yields",
        "rule": ("one case = one decode/read-all/close iteration of one goroutine on a Decoder shared by G goroutines (G in 2..64, GOMAXPROCS in 1,2,16, "
                 "safe and fast mode, with and without max buffer), each goroutine on its own marked inputs, every accessor judged by the C13 oracle for "
                 "that goroutine's input; binary built with -race, reports parsed from GORACE logs; seeded yields/sleeps at four verif points; "
                 "non-trivial when the result object came from another goroutine; distinct classes = (G, GOMAXPROCS, mode, max buffer) configurations; "
                 "interleaving diversity reported as distinct 4-grams of the boundary event order"),
        "explanation": "evidence counters: cross_goroutine_handovers, result_object_reuses, distinct_boundary_4grams, per-site hook hits, race_reports; every fourth goroutine also feeds messages whose outer level is valid and whose nested elements are corrupt after some well-formed ones (nested access fails, result closed as usual); four configurations use WithBufferFilterFunc (shrink to 0 / to 1 / shrink to 0 with a yield inside the callback)",
        "assumptions": TRUST_LAZY + ["the race detector only sees races on executions that happened"],
    },
})


def ensure_plugins():
    """protoc-gen-go / protoc-gen-gogo are built by setup.sh; build them here if someone skipped it."""
    b = os.path.join(driver.VERIF, "bin")
    if not (os.path.exists(os.path.join(b, "protoc-gen-go")) and os.path.exists(os.path.join(b, "protoc-gen-gogo"))):
        driver.run(["sh", os.path.join(driver.VERIF, "setup.sh")], cwd=driver.VERIF)
    return b


def build_corpus(workdir, tier, seed, mode, flavor):
    """Builds protoc-gen-fastmarshal from /repo's working tree, generates and compiles the corpus, builds wl-gen.
    Returns (path of wl-gen or None, gen report dict)."""
    b = ensure_plugins()
    fm = os.path.join(workdir, "protoc-gen-fastmarshal")
    driver.go_build("./cmd/protoc-gen-fastmarshal", fm, "none", driver.REPO)
    cg = os.path.join(workdir, "corpusgen")
    driver.go_build("./cmd/corpusgen", cg, "none", driver.HARNESS)
    genmod = os.path.join(workdir, "genmod")
    import time as _t
    t0 = _t.time()
    p = driver.run([cg, "-out", genmod, "-fm", fm, "-gogo", os.path.join(b, "protoc-gen-gogo"), "-gogen", os.path.join(b, "protoc-gen-go"),
                    "-mode", mode, "-tier", tier, "-seed", str(seed), "-harness", driver.HARNESS, "-repo", driver.REPO], cwd=workdir, check=False)
    if p.returncode != 0:
        raise driver.Inconclusive("corpus generation failed: " + (p.stdout or "")[-1500:])
    driver.log("  corpus: %s (%.1fs)" % ((p.stdout or "").strip().splitlines()[-1], _t.time() - t0))
    report = json.load(open(os.path.join(genmod, "gen-report.json")))
    wl = None
    if flavor is not None:
        wl = os.path.join(workdir, "wl-gen")
        driver.go_build(".", wl, flavor, genmod)
    return wl, report


def gen_run(prop, spec, workdir, tier, seed, t0):
    """Checks whose workload links the generated corpus."""
    try:
        wl, report = build_corpus(workdir, tier, seed, spec.get("corpus_mode", "behave"), spec.get("flavor", "plain"))
    except driver.Inconclusive as e:
        print("INCONCLUSIVE property=%s reason=%s" % (prop, str(e).replace("\n", " | ")[:1500]))
        return 2
    results, crashes, inconc = driver.run_shards(spec, workdir, wl, prop, tier, seed)
    merged = driver.merge(results)
    for c in crashes:
        merged["violations"].setdefault(c["sig"], c)
    merged["inconclusive"] += inconc
    extra_cov = {"corpus_packages_generated": len(report["packages"]), "corpus_packages_linked": sum(1 for p in report["packages"] if p["linked"]),
                 "corpus_units": len({p["unit"] for p in report["packages"]})}
    if spec.get("flavor") == "race":
        reps = driver.race_reports(workdir)
        extra_cov["race_reports"] = len(reps)
        for key, text in reps.items():
            merged["violations"]["%s:race:%s" % (prop, key)] = {
                "sig": "%s:race:%s" % (prop, key), "what": "data race reported by the Go race detector: " + key,
                "count": 1, "witness": {"report": text}}
    return driver.finish(prop, spec, tier, seed, merged, t0, extra_cov=extra_cov)


TRUST_GEN = [
    "Go toolchain 1.23.5; protoc-gen-go 1.36.4 / protoc-gen-gogo 1.3.2 from the module cache generate the message types",
    "oracle = google.golang.org/protobuf dynamicpb/protodesc 1.36.4 working from descriptors only (never calls generated methods)",
    "the harness plays protoc's role (descriptors built programmatically, validated by protodesc.NewFile); the bridge (reflection copy generated<->dynamic) is self-checked on every type and a bridge fault makes the run inconclusive",
]

SPECS.update({
    "C04": {
        "binary": "wl-gen", "flavor": "plain", "shards": 16, "run": gen_run,
        "timeout_quick": 900, "timeout_thorough": 3400, "ulimit_kb": 8 << 20,
        "floor": 1000,
        "rule": ("one case = one message value of one generated type (unit x flavour {gogo, gv1, gv2} x generator options) built through reflection on fresh structs; "
                 "Size(), Marshal() and MarshalTo(buffer of exactly Size() bytes, canary-framed, filled 0xAA then 0x55) must agree: equal lengths, every byte written, no overrun, "
                 "no truncated copy (encoder hook), no panic; non-trivial when >=1 field is populated; distinct by (package, message, field + boundary class | random field-number set)"),
        "explanation": "values: the empty message, every field alone at each boundary value / container shape (lists 1,2,127,128; maps 0,1,3; empty and full nested messages in fields, lists, maps, oneofs), then seeded random combinations; required fields always set; violations are shrunk field by field and signed by (flavour, failure kind, populated field shapes); every boundary case and every 4th random case is evaluated a second time in the 'empty but allocated' Go representation (nil lists, maps and presence-less bytes rewritten to empty non-nil values by Go reflection: same contents); Google V2 values holding an empty element in a repeated message field get a third pass with that element as a nil pointer; (C04 only) that pass also turns empty message values of maps into nil pointers; fourth representation pass 'ext-in-unknown': the top-level extension fields of the value are not set through the API but sit encoded in the unknown fields, as after decoding by code that does not know them (Google V1 resolves them at first contact); fifth pass 'invalid-utf8': the strings of the message itself hold bytes that form no code point (C04 only; nested messages may belong to a runtime that validates UTF-8)",
        "assumptions": TRUST_GEN,
    },
    "C05": {
        "binary": "wl-gen", "flavor": "plain", "shards": 16, "run": gen_run,
        "timeout_quick": 900, "timeout_thorough": 3400, "ulimit_kb": 8 << 20,
        "floor": 1000,
        "rule": ("one case = one message value of one generated type; the bytes of the generated Marshal() are parsed by dynamicpb from the unit's descriptor and compared with the original value "
                 "(deterministic re-encoding must be byte-identical: presence, NaN payloads, -0.0 count); differences are itemised per field path (missing / phantom / value-changed / count-changed / unknown-changed) "
                 "and each item is judged separately; non-trivial when >=1 field is populated; distinct by (package, message, field + boundary class | random field-number set)"),
        "explanation": "same value space as C04 (including the 'empty but allocated' second pass)",
        "assumptions": TRUST_GEN,
    },
})

SPECS.update({
    "C06": {
        "binary": "wl-gen", "flavor": "plain", "shards": 16, "run": gen_run,
        "timeout_quick": 900, "timeout_thorough": 3400, "ulimit_kb": 8 << 20,
        "floor": 1000,
        "rule": ("one case = (message value, legal encoding variant) where the variant bytes are produced by the reference codec from the value tree: canonical, reversed and shuffled field order, "
                 "opposite packing, packed runs split/mixed, duplicated singular scalars, split singular messages, several oneof members, map entries value-first / key omitted / value omitted / duplicate key, "
                 "explicit zero values, interleaved unknown fields; the generated Unmarshal (into a destination pre-populated with unrelated content and unknown bytes) must succeed and equal the dynamicpb parse "
                 "of the same bytes including the unknown fields either decoder retains (compared per field number), and equal a decode into a zero destination; non-trivial when the variant differs from the canonical encoding; distinct by (package, message, variant family, field/case)"),
        "explanation": "differences are itemised per field path and signed by (flavour, variant family - or canonical when the canonical encoding of the shrunk value shows the same item -, item kind@field shape); families added by the seeded rounds: mapomitboth, splitmsg-empty (an empty occurrence around the complete one), splitmsg+unknown, oneof-aba (same member, other member, same member), oneof-aba-full (the earlier occurrence is a different, complete value of the member type), oneof-msgloser (an empty message member loses against the real scalar member), unknown-padded; self-recursive types also get a chain 120 levels deep; splitpacked-empty (zero-length packed runs before the elements and as the very last field of the message); repeated extensions of every packable kind (unit p2extrep)",
        "assumptions": TRUST_GEN + ["variants not listed in the statement (over-long varints of known fields, unknown fields inside map entries, groups) are not generated"],
    },
    "C07": {
        "binary": "wl-gen", "flavor": "plain", "shards": 16, "run": gen_run,
        "timeout_quick": 900, "timeout_thorough": 3400, "ulimit_kb": 8 << 20,
        "floor": 300,
        "rule": ("one case = a message encoding with 1-3 unknown fields per message level (all four wire types; numbers next to declared ones, >=2^26, near 2^29-1; payloads 0..70000 bytes; first/middle/last positions) "
                 "fed to the generated Unmarshal then Marshal: the reference parse of the output must hold byte-identical unknown fields per message (top level and nested) and Size() must equal the output length; "
                 "distinct by (package, message, variant family, field/case)"),
        "explanation": "gv2 keeps unknown bytes in unknownFields, gogo/gv1 in XXX_unrecognized; both are compared through the reference parse, never through the struct; family unknown-padded writes the key, length prefix and varint value of unknown fields with redundant continuation bytes (valid wire data no encoder emits); differences inside runtime-owned google.protobuf.* sub-messages are not judged (protobuf-go re-encodes unknown keys itself); after the comparison the buffer returned by Marshal is inverted in place and Marshal is called again (the caller owns the returned bytes); the numbers of unknown fields are also drawn from the extension numbers declared anywhere in the same file (for another message they are just numbers); unit p2extsamename has an extended and a plain message with equal short names",
        "assumptions": TRUST_GEN,
    },
})

SPECS.update({
    "C17": {
        "binary": "wl-gen", "flavor": "plain", "shards": 16, "run": gen_run,
        "timeout_quick": 900, "timeout_thorough": 3400, "ulimit_kb": 8 << 20,
        "floor": 40,
        "rule": ("one case = (proto2 message value, subset of its reachable set required fields cleared): all 2^k subsets when k<=6 required slots are populated in the value tree (own fields, singular child, repeated element, map value, "
                 "oneof member, extension value), each slot alone plus 64 seeded subsets beyond; generated Marshal / csproto.Marshal must fail iff the reference CheckInitialized fails, and generated Unmarshal of the reference's partial encoding "
                 "must fail iff the reference's strict Unmarshal fails (empty message / empty input included); distinct by (package, message, nesting positions of the unset fields)"),
        "explanation": "the oracle is google.golang.org/protobuf's proto.CheckInitialized and strict proto.Unmarshal on dynamic messages; besides the reference's canonical encoding every partial value is also decoded from its splitmsg and oneof encodings (message field split over two occurrences, empty occurrences, several oneof members in a row incl. complete-then-partial and message-then-scalar), judged against the reference's strict parse of the same bytes; the same bytes are decoded into a destination that already holds a complete value",
        "assumptions": TRUST_GEN,
    },
})

SPECS.update({
    "C08": {
        "binary": "wl-gen", "flavor": "plain", "shards": 16, "run": gen_run,
        "timeout_quick": 1200, "timeout_thorough": 3400, "ulimit_kb": 6 << 20,
        "floor": 1000,
        "rule": ("one case = one byte string fed to the generated Unmarshal of one type: derived from reference encodings of value trees by truncation at every offset, 9 wire-significant byte values and 4 bit flips at every offset, "
                 "8 inflated lengths at every length prefix (nested ones included), plus seeded random and key-plausible random strings; no panic/fatal, heap allocation <= 256*len+256KiB (runtime/metrics, minimum of five measurements), and whenever dynamicpb "
                 "also accepts the input the two decoded messages must be equal (itemised diff incl. unknown fields); non-trivial when the mutant is judged by at least one side; distinct by (package, message, mutation family, outcome pair)"),
        "explanation": "children run under ulimit -v so an allocation bomb is an attributable crash; coverage-guided fuzzing named in the quantifier is not part of the registered check (not reproducible from VERIF_SEED)",
        "assumptions": TRUST_GEN,
    },
})


def two_phase_run(prop, spec, workdir, tier, seed, t0):
    """Phase 1: operation histories on the full corpus (checkptr build). Phase 2: concurrent Size/Marshal on shared quiescent
    messages, -race build of one unit per feature group."""
    try:
        wl, report = build_corpus(workdir, tier, seed, "behave", "plain")
    except driver.Inconclusive as e:
        print("INCONCLUSIVE property=%s reason=%s" % (prop, str(e).replace("\n", " | ")[:1500]))
        return 2
    results, crashes, inconc = driver.run_shards(spec, workdir, wl, prop, tier, seed)
    # phase 2
    w2 = os.path.join(workdir, "race")
    os.makedirs(w2)
    try:
        wl2, report2 = build_corpus(w2, tier, seed, "race", "race")
    except driver.Inconclusive as e:
        print("INCONCLUSIVE property=%s reason=%s" % (prop, str(e).replace("\n", " | ")[:1500]))
        return 2
    spec2 = dict(spec)
    spec2.update({"shards": 4, "shards_thorough": 8, "flavor": "race", "ulimit_kb": None})
    r2, c2, i2 = driver.run_shards(spec2, w2, wl2, prop, tier, seed, env_extra={"VERIF_%s_PHASE" % prop: "concurrent", "_race": "1"})
    merged = driver.merge(results + r2)
    for c in crashes + c2:
        merged["violations"].setdefault(c["sig"], c)
    merged["inconclusive"] += inconc + i2
    reps = driver.race_reports(w2)
    for key, text in reps.items():
        merged["violations"]["%s:race:%s" % (prop, key)] = {
            "sig": "%s:race:%s" % (prop, key), "what": "data race reported by the Go race detector: " + key,
            "count": 1, "witness": {"report": text}}
    extra_cov = {"race_reports": len(reps), "corpus_packages_linked": sum(1 for p in report["packages"] if p["linked"]),
                 "race_build_packages_linked": sum(1 for p in report2["packages"] if p["linked"])}
    return driver.finish(prop, spec, tier, seed, merged, t0, extra_cov=extra_cov)


SPECS.update({
    "C09": {
        "binary": "wl-gen", "flavor": "plain", "shards": 16, "run": two_phase_run,
        "timeout_quick": 1200, "timeout_thorough": 3400, "ulimit_kb": 8 << 20,
        "floor": 300, "extra_floors": {"concurrent_message_types": 9},
        "technique": "runtime monitoring: executable model (current contents) vs real object across operation histories; Go race detector for the concurrent clause",
        "rule": ("sequential: one case = one Marshal/MarshalTo/csproto.Marshal at the end of a seeded history (3-12 ops quick, up to 40 thorough) over {set/clear scalar, grow/shrink string/bytes/list/map, set/clear child, "
                 "in-place mutation of a nested child, Size, csproto.Size, owning runtime's proto.Size and proto.Marshal, Unmarshal of another value, Reset, csproto.Clone}; mutations are applied in lock-step to a dynamic-message model "
                 "and (through reflection) to the generated struct; the bytes must equal the generated Marshal of a fresh struct built from the model (for maps with >=2 entries: equal length and equal reference parse); a step whose fresh copy "
                 "fails too is a content defect owned by C04/C05/C17 and is not counted; non-trivial when >=1 mutation precedes the marshal; distinct by (flavour, message, last op bigram). "
                 "concurrent: G in {2,8,16,64} goroutines x GOMAXPROCS {1,2,16} call Size/Marshal/csproto.Marshal/runtime Marshal on one quiescent struct under -race; every result must equal the pre-computed bytes"),
        "explanation": "violations are signed by (flavour, failing call, failure kind, history cause: whether csproto or the owning runtime computed a size before, and whether a mutation followed); history steps include Clone (the model continues from what the clone holds) and 'alloc-empty-containers' (representation change only); message types with declared extensions are included with their extensions unset; MarshalTo steps write into a destination pre-filled with non-zero bytes; the concurrent phase interleaves a second message of another Go type (previous subject or latest subject of another flavour) in the same goroutines",
        "assumptions": TRUST_GEN + ["message types with declared extensions are skipped here (content-level known findings dominate them)", "the race detector only sees races on executions that happened"],
    },
})


def _norm_err(msg):
    import re
    msg = re.sub(r"verif\.\w+\.\w+", "verif.X", msg)
    msg = re.sub(r"gen/\w+/", "gen/P/", msg)
    msg = re.sub(r"verifgen/\S+", "verifgen/P", msg)
    msg = re.sub(r"p[23](\w+?)_(gogo|gv1|gv2)_\w+", r"pN\1_F_O", msg)
    msg = re.sub(r"\bp[23](\w+)", r"pN\1", msg)
    msg = re.sub(r"\d+", "N", msg)
    return msg


def c16_run(prop, spec, workdir, tier, seed, t0):
    """The generator itself is the code under test: every unit x flavour x full option product goes through the real plug-in
    twice; the plug-in protocol, byte comparison, go/parser and the Go compiler are the oracle."""
    try:
        _, report = build_corpus(workdir, tier, seed, "full", None)
    except driver.Inconclusive as e:
        print("INCONCLUSIVE property=%s reason=%s" % (prop, str(e).replace("\n", " | ")[:1500]))
        return 2
    merged = {"evaluations": 0, "classes": {}, "samples": [], "violations": {}, "extras": {}, "notes": [], "inconclusive": []}

    def viol(sig, what, wit):
        v = merged["violations"].setdefault(sig, {"sig": sig, "what": what, "witness": wit, "count": 0})
        v["count"] += 1

    nfast = 0
    for p in report["packages"]:
        if p["optkey"].startswith("plain"):
            continue
        nfast += 1
        merged["evaluations"] += 1
        api = "v2" if p["flavour"] == "gv2" else "v1"
        mode = "permessage" if "pm" in p["optkey"] else "singlefile"
        wit = {"package": p["pkg"], "unit": p["unit"], "flavour": p["flavour"], "options": p.get("fast_param"), "atoms": p["atoms"]}
        base = "C16:%s:%s:%s" % (api, p["group"], mode)
        if p.get("base_error"):
            merged["inconclusive"].append("the runtime's own generator failed for %s: %s" % (p["pkg"], p["base_error"][:200]))
            continue
        if p.get("fast_error"):
            kind = "plugin-crash" if p.get("fast_crash") else "plugin-error"
            first = p["fast_error"].split("\n")[0][:160]
            viol("%s:%s:%s" % (base, kind, _norm_err(first)), "%s: protoc-gen-fastmarshal failed: %s" % (p["pkg"], p["fast_error"][:600]), dict(wit, error=p["fast_error"][:3000]))
            continue
        if (p.get("files") or []):
            merged["classes"]["%s/%s/%s" % (p["unit"], p["flavour"], p["optkey"])] = 1
        if not p["deterministic"]:
            viol(base + ":nondeterministic", "%s: two runs on the identical request produced different bytes" % p["pkg"], wit)
        for n in p.get("duplicate_names") or []:
            viol(base + ":duplicate-output-name", "%s: output file name emitted twice: %s" % (p["pkg"], n), dict(wit, files=(p.get("files") or [])))
        if p.get("multi_file"):
            viol(base + ":multi-file-request", "%s: %s" % (p["pkg"], p["multi_file"]), wit)
        for n in p.get("bad_names") or []:
            viol(base + ":undocumented-output-name", "%s: output file name not of the documented form: %s" % (p["pkg"], n), dict(wit, files=(p.get("files") or [])))
        for e in p.get("parse_errors") or []:
            viol(base + ":unparsable:" + _norm_err(e)[:120], "%s: emitted Go source does not parse: %s" % (p["pkg"], e), wit)
        if not p["compile_ok"] and not p.get("duplicate_names"):
            if not p["base_compile_ok"]:
                merged["inconclusive"].append("base code of %s does not compile without the fast-marshal files: %s" % (p["pkg"], (p.get("compile_error") or "")[:300]))
            else:
                lines = [l.strip() for l in (p.get("compile_error") or "").splitlines() if ".go:" in l]
                first = lines[0] if lines else (p.get("compile_error") or "")[:160]
                first = first.split(": ", 1)[-1]
                viol("%s:compile-error:%s" % (base, _norm_err(first)[:140]), "%s: generated code does not compile: %s" % (p["pkg"], (p.get("compile_error") or "")[:600]), dict(wit, error=(p.get("compile_error") or "")[:3000]))
        if len(merged["samples"]) < 6 and (p.get("files") or []):
            merged["samples"].append({"package": p["pkg"], "parameter": p.get("fast_param"), "files": (p.get("files") or [])[:6], "deterministic": p["deterministic"], "compiles": p["compile_ok"]})
    merged["extras"]["fast_packages"] = nfast
    merged["extras"]["units"] = len({p["unit"] for p in report["packages"]})
    return driver.finish(prop, spec, tier, seed, merged, t0)


SPECS.update({
    "C16": {
        "binary": "corpusgen", "engine": "corpusgen", "run": c16_run,
        "floor": 150,
        "technique": "runtime monitoring of the real plug-in: plug-in protocol, byte comparison of repeated runs, go/parser and the Go compiler as oracles",
        "rule": ("one case = (schema unit, flavour, option tuple {single file, file per message} x {unsafe decode off, on} with the API version fixed by the flavour and specialname= set where the unit needs it): the real protoc-gen-fastmarshal "
                 "(built from the tree under test) is run twice on the identical CodeGeneratorRequest; it must not fail or crash, both responses must be byte-identical, every file name must be emitted once and be of the form <prefix>.pb.fm.go / "
                 "<prefix>_<lower(message)>.pb.fm.go, every file must parse (go/parser) and the package must compile together with the types produced by protoc-gen-gogo / protoc-gen-go; non-trivial when the response holds >=1 file; distinct by (unit, flavour, option tuple)"),
        "explanation": "corpus: feature matrix for proto2 and proto3 (scalars, repeated, packed/unpacked, oneofs, maps by key and value kind, nested/recursive, field-number ranges, enums, well-known types, name collisions, equal short names, proto3 optional, required, extensions by family) plus seeded random units; fields named size/marshal_to are generated for the gogo-style runtimes only (protoc-gen-go cannot rename them: not in the supported set); units added by the seeded rounds: required fields only in nested / equally named messages, fields named like gogo-generated methods (six specialname options), extension and field defaults, extend blocks at depth 2-3, repeated extensions of bytes/sfixed64/enum/message kind, 3-way file-name collisions, required fields with defaults, imports of a generated package whose Go package name differs from its path (also generated together with the main file in one request, whose output must not change); boolean options are spelled in every form strconv.ParseBool accepts; one unit (p2reqtwofiles) is made from two proto2 files with required fields that are generated into ONE Go package and compiled together; units p?mapwkt (a type of another Go package used only as a map value) and p?enumonly (a file without messages); unit p?namesgogo also has special-named fields of message, repeated and map kind; units p?mapnullstruct (imported enum only as a map value), p2extwkt (extension of an imported type), p2extnameclash (fields named like generated locals)",
        "assumptions": TRUST_GEN[:1] + ["the harness plays protoc's role; descriptors validated by protodesc.NewFile"],
    },
})


def c10_run(prop, spec, workdir, tier, seed, t0):
    """Two workloads: lazyproto safe mode (wl-lazy) and generated Unmarshal with default options (wl-gen)."""
    lazy = os.path.join(workdir, "wl-lazy")
    driver.go_build("./cmd/wl-lazy", lazy, "plain", driver.HARNESS)
    w1 = os.path.join(workdir, "lazy")
    os.makedirs(w1)
    r1, c1, i1 = driver.run_shards(dict(spec, shards=8), w1, lazy, prop, tier, seed)
    try:
        wl, report = build_corpus(workdir, tier, seed, "behave", "plain")
    except driver.Inconclusive as e:
        print("INCONCLUSIVE property=%s reason=%s" % (prop, str(e).replace("\n", " | ")[:1500]))
        return 2
    r2, c2, i2 = driver.run_shards(spec, workdir, wl, prop, tier, seed)
    merged = driver.merge(r1 + r2)
    for c in c1 + c2:
        merged["violations"].setdefault(c["sig"], c)
    merged["inconclusive"] += i1 + i2
    return driver.finish(prop, spec, tier, seed, merged, t0, extra_cov={"corpus_packages_linked": sum(1 for p in report["packages"] if p["linked"])})


SPECS.update({
    "C10": {
        "binary": "wl-gen", "flavor": "plain", "shards": 16, "run": c10_run,
        "timeout_quick": 900, "timeout_thorough": 3400, "ulimit_kb": 8 << 20,
        "floor": 200, "extra_floors": {"alias_observed_in_unsafe_decode_packages": 1},
        "rule": ("generated code: one case = a valid encoding (with unknown fields at every level) decoded by the generated Unmarshal from a caller-owned buffer; the decoded message is snapshotted through the bridge "
                 "(deterministic re-encoding), the buffer is overwritten with 0x00, 0xFF and its bit-inverse and reused for another decode, and the message must re-encode identically after each step; in addition a "
                 "reflection walk reports every string/[]byte (fields, repeated elements, map keys/values, oneof members, nested messages, unknown-field storage) whose data pointer lies inside the buffer. "
                 "lazyproto: every accessor value obtained in safe mode (Decode function, Decoder) is snapshotted, the caller's buffer clobbered/reused, values compared and all accessors re-read, also after Close. "
                 "non-trivial when a string/bytes/unknown field is present; distinct by (package, message, field/case) resp. (entry point, clobber stage)"),
        "explanation": "packages generated with enableunsafedecode=true are run too: aliasing of strings there is the documented opt-in and is only counted (alias_observed_in_unsafe_decode_packages) to show that the monitor fires; aliasing of bytes/unknown fields there is still reported; before every target the types generated WITH enableunsafedecode are given an input whose nested message is malformed (their Unmarshal fails halfway) and a valid one, and a background goroutine keeps decoding valid nested input with them while the default-mode targets are judged (what other code did with the library must not matter)",
        "assumptions": TRUST_GEN + TRUST_LAZY,
    },
})

SPECS.update({
    "C11": {
        "binary": "wl-gen", "flavor": "plain", "shards": 16, "run": two_phase_run,
        "timeout_quick": 1200, "timeout_thorough": 3400, "ulimit_kb": 8 << 20,
        "floor": 300, "extra_floors": {"rounds_with_overlapping_first_classification": 10},
        "technique": "runtime monitoring: owning runtime's own API and dynamicpb as oracles; Go race detector + hook-widened first-classification races",
        "rule": ("sequential: one case = one message value of a plain (no fast-marshal methods) or fast type of each runtime; csproto.Marshal bytes must decode to the original with the runtime's own Unmarshal and with dynamicpb, "
                 "the runtime's Marshal bytes must decode with csproto.Unmarshal, csproto.Size == len, Clone/Equal/Reset/MarshalText (whitespace-normalised) equal the runtime's own function, GrpcCodec equals Marshal/Unmarshal with name 'proto', "
                 "MsgType equals the flavour's class; csproto.Equal across runtimes is false; unsupported values (nil, int, string, struct, pointer to non-message, typed nil, slice) give the documented error/zero result without panic; "
                 "distinct by (flavour, plain/fast, message, value class). concurrent: rounds in which G in {2,16,64} goroutines (GOMAXPROCS 1,2,16) call MsgType/Clone/MarshalText on values of types whose classification was just "
                 "evicted (verif hook), with seeded yields between cache miss and store, under -race; every goroutine must observe the correct class; evidence counts rounds with >=2 goroutines inside the miss window"),
        "explanation": "every case ends with Size/Marshal after lock-step in-place mutations of the message that was sized and marshaled before (oracle: the owning runtime's Marshal of a fresh copy of the current contents); gogo well-known types are exercised as fields of plain gogo types; decoding (value bytes, nil, empty payload; Unmarshal and GrpcCodec) into a message that already holds other content must match the owning runtime's Unmarshal; plain types with an unset required field must be accepted/refused like the owning runtime does; Equal(generated, *dynamicpb.Message of the same descriptor) vs proto.Equal for Google V2; MarshalText on messages with unknown fields and on typed nil pointers; plain gogo types also in the 'plainsz' flavour (generated Size(), no Marshal/Unmarshal); for half of the types (chosen by the seed) the first value csproto sees in the process is a typed nil pointer (MsgType/Clone/Equal/Size/MarshalText), whose result is not judged; Equal(m, m) with the same object on both sides against the owning runtime's Equal(m, m); the Go package NAMES of the corpus do not mention the runtime, so the same schema gives equally named types for the three runtimes, and for a quarter of the types the twins of the other runtimes are classified first; the frame returned by GrpcCodec.Marshal must still hold its bytes after the codec marshaled the next message; unsupported values include *int and pointers to non-message structs, for which MsgType must say Unknown and Clone/Equal/MarshalText/ClearAllExtensions must not panic; self-recursive types get a chain 130 levels deep",
        "assumptions": TRUST_GEN + ["the owning runtime's API is the stated oracle for Clone/Equal/Reset/MarshalText", "the race detector only sees races on executions that happened"],
    },
})

SPECS.update({
    "C12": {
        "binary": "wl-gen", "flavor": "plain", "shards": 16, "run": gen_run,
        "timeout_quick": 900, "timeout_thorough": 3400, "ulimit_kb": 8 << 20,
        "floor": 60,
        "technique": "runtime monitoring: executable model (map number->value) + owning runtime's own extension API as oracles over operation histories",
        "rule": ("one case = one step of a seeded sequence (3-10 ops) of SetExtension / ClearExtension / ClearAllExtensions / checks on an extendable message of each runtime (types generated without fast-marshal code), "
                 "over every extension family of the corpus (scalars of every kind, bytes/string, message, enum, repeated, file-level and nested-declared); after every step HasExtension/GetExtension are compared with the model and "
                 "with the runtime's own HasExtension/GetExtension, ExtensionFieldNumber with the declared number, RangeExtensions with the set of set numbers, and a refwire walk of csproto.Marshal output with the set numbers "
                 "(cleared extensions must be gone); gogo messages are paired with google descriptors and vice versa: Has must be false, Get/Set must fail, the message must be unchanged (ClearExtension's documented panic is tolerated); "
                 "non-trivial when a sequence contains a Set and a Clear; distinct by (flavour, unit, op bigram) and (message flavour, descriptor flavour)"),
        "explanation": "values are built in each runtime's own convention (pointer-to-scalar for Gogo/Google V1, plain values for V2) from dynamic values; Google V1 and V2 descriptors share one Go type and are not a mismatch pair; plain and fast packages (for fast types csproto.Marshal runs the generated extension code); unit p2extdefault declares extensions with explicit defaults; the value passed to the RangeExtensions callback is compared with what the owning runtime's own enumeration API hands out; for Google V2, extension types built at run time (not in the global registry) go through Set/Has/Get/Clear/ClearAll/Range/Marshal",
        "assumptions": TRUST_GEN + ["the owning runtime's extension API is the stated oracle"],
    },
})

SPECS.update({
    "C18": {
        "binary": "wl-gen", "flavor": "plain", "shards": 16, "run": gen_run,
        "timeout_quick": 900, "timeout_thorough": 3400, "ulimit_kb": 8 << 20,
        "floor": 300,
        "technique": "runtime monitoring: owning runtime's own JSON encoder/decoder and encoding/json as oracles",
        "rule": ("one case = (message value of each runtime incl. well-known types, enums, 64-bit integers, bytes, maps, oneofs; marshal option combination of the 2^3 x indent in {none, ' ', '  ', tab}): the adapter output must be valid JSON, "
                 "equal as a JSON tree to the owning runtime's own encoder given the same options (protojson / golang jsonpb / gogo jsonpb called directly), be restored to an equal message by JSONUnmarshaler and by the owning runtime's decoder; "
                 "indentation must be whole copies of the indent string; enum fields are numbers iff requested; zero-valued implicit fields appear iff requested; JSON with an injected unknown key is accepted iff allowed; JSON lacking a required key "
                 "is accepted iff allowPartial (Google V2, as documented); nil -> (nil, nil), unmarshal into nil -> error; distinct by (flavour, message, option tuple, value class)"),
        "explanation": "values with NaN or -0.0 are excluded (JSON cannot carry the distinction); comparisons are on parsed JSON trees, never on raw text; well-known types are additionally run as root messages (Value of all six kinds incl. null, Struct, ListValue, Timestamp, Duration, wrappers, FieldMask, Empty) for the Google V2 and Gogo runtimes, restricted to values the owning runtime's own JSON codec round-trips; typed nil pointers of 13 well-known types in the nil clause; gogo messages with an enum field imported from another gogo package are built by Go reflection (the bridge cannot reflect on them) and compared with gogo's jsonpb; two values per type have their strings overwritten in field order from a curated list (trailing backslash first, then ', ' / ':  ' / quotes / braces); adapters are also given the OTHER side's options set to the opposite values (no documented effect there); self-recursive types get chains 101 and 140 levels deep; for half of the types the equally named twins generated for the other runtimes (same Go package name and type name, hence the same %T) go through both adapters first; a third of the option lists name every option twice, the opposite value first: the last one counts, also when it switches the feature off; per type, four goroutines with four different option tuples marshal one message concurrently; each output must equal what the same call gives alone",
        "assumptions": TRUST_GEN + ["the owning runtime's JSON implementation is the stated oracle for option effects"],
    },
})

SPECS.update({
    "C19": {
        "binary": "wl-gen", "flavor": "plain", "shards": 16, "run": gen_run,
        "timeout_quick": 900, "timeout_thorough": 3400, "ulimit_kb": 8 << 20,
        "floor": 60,
        "rule": ("one case = Encoder.EncodeNested(tag, m) into a canary-framed buffer sized from SizeOfTagKey/SizeOfVarint and csproto.Marshal(m), with m one of {generated fast type, hand-written MarshalTo+Size stub, Marshal+Size stub, "
                 "Marshal-only stub, plain gogo / google v1 / google v2 message incl. well-known types}, as only/first/middle/last field among scalar fields, tags with 1-5 byte keys: the bytes written must be key|varint(len(B))|B with "
                 "B = csproto.Marshal(m), the write cursor (verif accessor) must advance by exactly that; Decoder.DecodeNested must consume exactly the field (reference walker extent), yield an equal message / the payload, return a failing nested "
                 "marshaler's / unmarshaler's error unchanged without moving the cursor, and reject a declared length beyond the buffer without invoking the nested decoder (stub counts invocations); "
                 "distinct by (nested kind, position, payload size class)"),
        "explanation": "failing stubs are injected for every 7th stub case (MarshalTo error, Marshal error, Unmarshal error); a nested value whose own csproto.Marshal fails is not dropped: EncodeNested must then fail too (eight runtime-only children without fast-marshal code - invalid UTF-8 in StringValue/Struct, unset required fields of descriptor messages of protobuf-go and gogo, shallow and one level down, with and without bytes produced next to the error - in all four positions); every field is also decoded into a value of an unsupported type (must be refused, also for an empty payload) and, for generated/plain types, into a destination that already holds another value; every nested field is also decoded from a hand-made encoding with an over-long (valid) length prefix followed by another field; every generated/plain case is repeated with a second object of the same contents that nobody has sized or marshaled before (expected bytes taken from its twin), so that no size cache of the owning runtime is warm when EncodeNested sees it; the over-declared length is tried in both decoder modes, with and without spare capacity behind the input slice, with panics recovered and the cursor checked",
        "assumptions": TRUST_GEN + TRUST_WIRE[2:],
    },
})


def c20_run(prop, spec, workdir, tier, seed, t0):
    binary = os.path.join(workdir, "wl-wire")
    driver.go_build("./cmd/wl-wire", binary, "plain", driver.HARNESS)
    dump = os.path.join(workdir, "protodump")
    driver.go_build("./cmd/protodump", dump, "none", driver.REPO)
    results, crashes, inconc = driver.run_shards(spec, workdir, binary, prop, tier, seed, env_extra={"VERIF_PROTODUMP": dump})
    merged = driver.merge(results)
    for c in crashes:
        merged["violations"].setdefault(c["sig"], c)
    merged["inconclusive"] += inconc
    return driver.finish(prop, spec, tier, seed, merged, t0)


SPECS.update({
    "C20": {
        "binary": "wl-wire", "flavor": "plain", "shards": 16, "run": c20_run,
        "timeout_quick": 900, "timeout_thorough": 3400,
        "floor": 50,
        "technique": "runtime monitoring: render/parse round trip for annotated hex; the real protodump binary run as a child process against a reference renderer over a refwire walk",
        "rule": ("hex: one case = random bytes rendered as annotated hex (mixed-case digits, ASCII and Unicode spaces before/between/inside digit pairs, ';' comments containing hex digits and ';', LF/CRLF breaks at byte boundaries, "
                 "empty and comment-only lines): ParseAnnotatedHex must return exactly the bytes; a rendering with one foreign character inserted outside any comment must be rejected; non-trivial when the rendering has a comment and an in-pair space. "
                 "protodump: one case = one run of the real binary (built from the tree under test) on a seeded valid or malformed message with seeded -expand / -strings path sets, given through -file, redirected stdin or a pipe: stdout must equal "
                 "the reference rendering (one tag/wire-type header per field in wire order, value lines, recursion exactly into the requested paths), exit status 0 iff the input is well-formed, never a Go panic; "
                 "distinct by (decoration set, length class) resp. (input channel, number of expand/strings paths, valid?)"),
        "explanation": "line breaks inside a digit pair are not generated (documented as line-by-line); expand paths are only requested for fields that hold nested messages; path elements are >=1; five families of texts with one physical line of 64-76 KiB (single-line dumps, long comment, long blank run, long line in the middle), each also with foreign text after the long line that must be rejected; protodump inputs include fully expanded chains of 8-40 nesting levels and bushy trees (two nested-message siblings per level, 4-7 levels) with random prefix-closed expand sets; the last eight results of ParseAnnotatedHex are kept and compared again after later calls (the caller owns what it was given); foreign characters include every control byte that is not white space and replace a hex digit half of the time (keeping the digit count even)",
        "assumptions": TRUST_WIRE[:2],
    },
})

NOT_APPLICABLE = {}

ENGINES = [
    {"name": "wl-wire", "path": "harness/cmd/wl-wire", "serves_properties": ["C01", "C02", "C03", "C20"],
     "kind_free_text": "workload binary driving csproto.Encoder/Decoder and prototest against refwire+protowire oracles"},
    {"name": "wl-lazy", "path": "harness/cmd/wl-lazy", "serves_properties": ["C10", "C13", "C14", "C15"],
     "kind_free_text": "workload binary driving lazyproto (Decode function and Decoder object) against a refwire-derived accessor oracle; pool hand-out hook monitor; shared-decoder stress under -race"},
    {"name": "refwire", "path": "harness/refwire", "serves_properties": ["C01", "C02", "C03", "C13", "C20"],
     "kind_free_text": "spec-derived independent wire codec used as reference"},
    {"name": "driver", "path": "checklib", "serves_properties": [],
     "kind_free_text": "builds from /repo's working tree with -tags verif, runs child-process shards under watchdog/ulimit, parses race logs, matches known findings, writes evidence and replays"},
]
