#!/bin/sh
# Offline setup: builds the protoc plug-ins of the owning runtimes from the module cache into /verif/bin.
# Everything that depends on /repo's working tree is built by each check, not here.
set -e
cd "$(dirname "$0")"
export GOFLAGS=-mod=mod GOPROXY=off GOSUMDB=off GOTOOLCHAIN=local
mkdir -p bin
cd harness
go build -o ../bin/protoc-gen-go google.golang.org/protobuf/cmd/protoc-gen-go
go build -o ../bin/protoc-gen-gogo github.com/gogo/protobuf/protoc-gen-gogo
echo "setup ok"
